"""C08 — failure reports point at the furthest failure with sound expectations."""
from props.vmcommon import *
import binascii, re

MODULES = ["PestModel.Thm.C08"]
LISTER_ID = "C05-lister-not-preserving"
SEM = "drv_sem"


def run(ctx):
    so_stats = {}
    # leg 1: the tracking code of ParserState (track / attempts) as modelled, against the real VM (error triples)
    run_vm_property(
        ctx, MODULES, "C08",
        oracle_kind="an error position off a boundary / an error that cannot be rendered",
        corr_kind="correspondence `V` (Vm::parse error position and expected/unexpected rule sets vs the lowered VM model of ParserState::track)",
        rule="leg 1: seeded random guarded grammars x 2 start rules x ALL inputs up to 3/5 characters: error position and sorted expected/unexpected rule lists of Vm::parse vs the model of ParserState::track; leg 2 (specification): for every failing parse the triple is compared with specReport — furthest position of a reportable attempt in the call tree of the reference semantics, with a failing (or negated-matching) rule standing for the attempts inside it at the same position unless exactly one was made — computed by the Lean model from the UNOPTIMIZED grammar; non-trivial = failing parses that report at least one rule",
        assumptions=["the specification is evaluated on the call tree of the reference semantics (PestModel.RefTrace), independent of ParserState::track",
                     "rule names are compared as sorted lists (the VM's rule type is &str, ordered bytewise)"],
    )
    # leg 1b: the same cases against the SPECIFICATION evaluated on the optimized rule set the VM actually runs
    # (SO lines: specReport on the call tree of the reference semantics of ofOptimized(rules)); no lister caveat here
    for fs in ("default", "extras"):
        d = os.path.join(ctx.rundir, f"gen-{fs}")
        ops, imp = read_lines(os.path.join(d, "ops.txt")), read_lines(os.path.join(d, "impl.txt"))
        reqs, idx = [], []
        for k, (o, i) in enumerate(zip(ops, imp)):
            w = o.split(" ", 3)
            if len(w) == 4 and w[0] == "V" and w[2] == "vm" and ",l_" in w[1] and "err" in i:
                reqs.append(f"SO {1 if fs == 'extras' else 0} {w[3]}"); idx.append(k)
        if not reqs:
            continue
        sd = os.path.join(ctx.rundir, f"so-{fs}"); os.makedirs(sd, exist_ok=True)
        open(os.path.join(sd, "ops.txt"), "w").write("\n".join(reqs) + "\n")
        okm, err = run_model(MODE, os.path.join(sd, "ops.txt"), os.path.join(sd, "model.txt"))
        spec = read_lines(os.path.join(sd, "model.txt"))
        bad, n = [], 0
        for k, sp in zip(idx, spec):
            a, b = imp[k].split(" | "), sp.split(" | ")
            for j, (x, y) in enumerate(zip(a, b)):
                x = x.split(" PA ")[0]      # (with error detail on, the attempts record follows the report; C15 is about it)
                if x.startswith("err"):
                    n += 1
                    if x != y and y not in ("fuel", "bad-op"):
                        bad.append((split_case(ops[k], j), x, y))
        so_stats[fs] = {"failing_parses_compared_with_specification": n, "differences": len(bad)}
        if bad:
            case, x, y = min(bad, key=lambda t: (len(t[0]), t[0]))
            ctx.violation({"kind": "the failure report of Vm::parse is not the furthest-failure report the property specifies (specReport on the call tree of the reference semantics of the optimized rule set)",
                           "features": fs, "case": case, "impl": x, "specification": y, "failing_inputs_in_run": len(bad)})
    # leg 2: the property's own statement evaluated by the model on the call tree, against the implementation
    lister_known = next((k for k in load_known() if k.get("id") == LISTER_ID and k.get("status") == "known"), None)
    for fs in ("default", "extras"):
        ok, out, bindir, _ = cargo_build(fs, [SEM])
        if not ok:
            ctx.violation({"obligation": f"harness does not build (features {fs})", "log": out[-2000:]}, no_input=True); continue
        outdir = os.path.join(ctx.rundir, "spec-" + fs)
        shutil.rmtree(outdir, ignore_errors=True); os.makedirs(outdir, exist_ok=True)
        rc, o = sh([os.path.join(bindir, SEM), "gen", ctx.tier, str(ctx.seed), outdir, "C08"], timeout=3000)
        if rc != 0:
            ctx.violation({"correspondence": "spec-" + fs, "error": o[-1500:]}, no_input=True); continue
        # the optimizer may merge or drop attempts (e.g. `(r ~ x) | r` becomes `r ~ x?`: one attempt of r instead of two), so on
        # the grammar AS WRITTEN the report is judged for soundness, not for equality: same furthest position, and every
        # expected / unexpected rule is among the rules that failed / matched under negation there (SA lines). The exact
        # equality is leg 1b (specification on the optimized rule set).
        ops = read_lines(os.path.join(outdir, "ops.txt")); imp = read_lines(os.path.join(outdir, "impl.txt")); orc = read_lines(os.path.join(outdir, "oracle.txt"))
        sa = os.path.join(outdir, "sa"); os.makedirs(sa, exist_ok=True)
        open(os.path.join(sa, "ops.txt"), "w").write("\n".join("SA" + o[1:] if o.startswith("S ") else o for o in ops) + "\n")
        okm, err = run_model(MODE, os.path.join(sa, "ops.txt"), os.path.join(sa, "model.txt"))
        if not okm:
            ctx.violation({"correspondence": "spec-" + fs, "error": err[-1500:]}, no_input=True); continue
        mod = read_lines(os.path.join(sa, "model.txt"))
        unlisted = []

        def parts(t):
            m = re.match(r"err (\d+) \[(.*?)\] \[(.*?)\]$", t)
            return (int(m.group(1)), set(filter(None, m.group(2).split(","))), set(filter(None, m.group(3).split(",")))) if m else None
        for i, (op, im, mo) in enumerate(zip(ops, imp, mod)):
            a, b = im.split(" | "), mo.split(" | ")
            nolist = {}
            for item in (orc[i] if i < len(orc) else "").split()[1:]:
                k, _, h = item.partition("=")
                try:
                    nolist[int(k)] = binascii.unhexlify(h).decode()
                except Exception:
                    pass
            for j, (x, y) in enumerate(zip(a, b)):
                if x == y or y in ("fuel", "bad-op"):
                    continue
                px, py = parts(x), parts(y)
                if px and py and px[0] == py[0] and px[1] <= py[1] and px[2] <= py[2]:
                    continue      # sound: furthest position, rules drawn from the attempts made there
                # the disagreement disappears when the `list` pass is left out (hook H2): the lister finding
                pn = parts(nolist[j]) if j in nolist else None
                if lister_known and j in nolist and (nolist[j] == y or (pn and py and pn[0] == py[0] and pn[1] <= py[1] and pn[2] <= py[2])):
                    ctx.known_finding(LISTER_ID + "/C08", "(via the optimizer `list` pass, see C05) the reported attempts differ from the specification computed on the unoptimized grammar")
                else:
                    unlisted.append((split_case(op, j), x, y))
        if unlisted:
            case, im, spec = min(unlisted, key=lambda t: (len(t[0]), t[0]))
            ctx.violation({"kind": "the failure report of Vm::parse is not sound for the grammar as written: its position is not the furthest position of a reportable attempt of the reference semantics, or it lists a rule that did not fail (resp. match under negation) there",
                           "features": fs, "case": case, "impl": im, "position_and_all_attempts_there": spec, "failing_inputs_in_run": len(unlisted)})
    # leg 3: the parser pest_generator emits reports the same failure as the VM (whose report is leg 1's subject)
    _, gen_stats = generated_leg(ctx, lambda g, v: g.startswith("err") and v.startswith("err"))
    # merge the second leg's numbers into the evidence file written by leg 1
    ev_path = os.path.join(EVIDENCE, f"{ctx.prop}.json")
    ev = json.load(open(ev_path))
    ev["violations"] = len(ctx.violations)
    ev["known_findings_hit"] = sorted(ctx.known_hits.keys())
    ev["wall_s"] = round(time.time() - ctx.t0, 2)
    ev["coverage"]["distribution"]["specification_on_optimized_rules"] = so_stats
    ev["coverage"]["distribution"]["generated_parser_reports"] = gen_stats
    for fs in ("default", "extras"):
        try:
            st = json.load(open(os.path.join(ctx.rundir, "spec-" + fs, "stats.json")))
            ev["coverage"]["distribution"]["spec-" + fs] = {k: v for k, v in st.items() if k != "samples"}
            ev["coverage"]["evaluations"] += st.get("evaluations", 0)
            ev["coverage"]["traces_validated_against_impl"] += st.get("evaluations", 0)
        except Exception:
            pass
    json.dump(ev, open(ev_path, "w"), indent=1)


def replay(ctx, path):
    r = json.load(open(path))
    drv = "drv_gen" if r.get("leg") == "generated" else SEM if r.get("case", "").startswith("S ") else DRV
    return replay_generic(ctx, path, drv, MODE, featureset=("extras" if r.get("features") == "extras" else "default"))
