import PestModel.Model.Ref
import PestModel.Model.Lower
/-! # C01 — placeholder until the theorems land. -/
namespace PestModel.C01
open PestModel.G

theorem smoke : rotateExpr (.seq (.seq (.str ['a']) (.str ['b'])) (.str ['c'])) =
    .seq (.str ['a']) (.seq (.str ['b']) (.str ['c'])) := by decide

end PestModel.C01
