import PestModel.Model.Ref
import PestModel.Model.RefSpec
import PestModel.Model.Lower
import PestModel.Model.Views
import PestModel.Lemmas.VmRefDefs
import PestModel.Lemmas.PStateInv
import PestModel.Lemmas.PStateLimitTr
import PestModel.Lemmas.RefVal
import PestModel.Lemmas.RefStr
import PestModel.Lemmas.ViewsBuild
/-! Lemmas for C01: the lowered VM program over the `ParserState` model refines the reference denotation.
Part 1: the simulation relation `Sim`, the per-program specification `Spec` and queue facts. -/
namespace PestModel.VmRef
open PestModel.G PestModel.PS PestModel.Lower PestModel.Ref PestModel.Views
open PestModel.LineCol (Str isBoundary bLen cLen splitAt? slice?)
open PestModel.Stack (StkInv)

/-! ### queue facts -/

theorem pushNodes_nil (q : List QTok) : pushNodes q [] = q := by rw [pushNodes]

theorem pushNodes_cons (q : List QTok) (t : Tree) (ts : List Tree) :
    pushNodes q (t :: ts) = pushNodes (pushNode q t) ts := by rw [pushNodes]

theorem pushNodes_append (q : List QTok) (f1 f2 : List Tree) :
    pushNodes q (f1 ++ f2) = pushNodes (pushNodes q f1) f2 := by
  induction f1 generalizing q with
  | nil => rw [pushNodes_nil]; rfl
  | cons t ts ih => rw [List.cons_append, pushNodes_cons, pushNodes_cons, ih]

theorem pushNodes_single (q : List QTok) (t : Tree) : pushNodes q [t] = pushNode q t := by
  rw [pushNodes_cons, pushNodes_nil]

theorem pushNodes_prefix (q : List QTok) (f : List Tree) : ∃ s, pushNodes q f = q ++ s :=
  (pushNodes_spec q f).1

theorem pushNode_node (q : List QTok) (r a b : Nat) (tag : Option Str) (cs : List Tree) :
    pushNode q (.node r a b tag cs) =
      PS.setAt (pushNodes (q ++ [.start 0 a]) cs) q.length
        (.start (pushNodes (q ++ [.start 0 a]) cs).length a) ++ [.end_ q.length r tag b] := by
  rw [pushNode]

/-! ### the simulation relation -/

/-- the VM state `st` stands for the reference state `σ` in atomicity mode `m`, inside (`la`) or
outside a predicate. -/
structure Sim (input : Str) (m : Atomicity) (la : Bool) (st : PState) (σ : St) : Prop where
  inp : st.input = input
  pos : st.pos = σ.pos
  stk : st.stack.cache = σ.stack
  inv : StkInv st.stack
  bnd : isBoundary input st.pos = true
  atom : st.atomicity = m
  la : st.lookahead = .none ↔ la = false
  calls : st.calls = none
  en : st.pa.enabled = false

/-- what a failed program guarantees about the state it leaves. -/
def Rest (cl : Prop) (st st' : PState) : Prop :=
  st'.pos = st.pos ∧ st'.queue = st.queue ∧ (cl → st'.stack.cache = st.stack.cache)

def Any (_ _ : PState) : Prop := True

/-- `run cfg n p` implements the reference function `D` (from related states, in mode `m`/`la`);
`E` is what is known about the state after a failure. -/
def Spec (cfg : Cfg) (input : Str) (n : Nat) (p : Prog) (m : Atomicity) (la : Bool) (D : St → Res)
    (E : PState → PState → Prop) : Prop :=
  ∀ st σ, Sim input m la st σ →
    match run cfg n p st with
    | .ok st' => ∃ σ' f, D σ = .ok σ' f ∧ st'.pos = σ'.pos ∧ st'.stack.cache = σ'.stack ∧
        st'.queue = pushNodes st.queue f
    | .err st' => D σ = .fail ∧ E st st'
    | .panic => D σ = .stuck
    | .fuel => True

variable {cfg : Cfg} {input : Str}

theorem Spec.zero (p : Prog) (m : Atomicity) (la : Bool) (D : St → Res) (E : PState → PState → Prop) :
    Spec cfg input 0 p m la D E := by
  intro st σ _
  rw [run_zero]; trivial

theorem Spec.ok {n p m la D E} (h : Spec cfg input n p m la D E) {st σ st'} (hs : Sim input m la st σ)
    (hr : run cfg n p st = .ok st') :
    ∃ σ' f, D σ = .ok σ' f ∧ st'.pos = σ'.pos ∧ st'.stack.cache = σ'.stack ∧
      st'.queue = pushNodes st.queue f := by
  have := h st σ hs
  rw [hr] at this
  exact this

theorem Spec.err {n p m la D E} (h : Spec cfg input n p m la D E) {st σ st'} (hs : Sim input m la st σ)
    (hr : run cfg n p st = .err st') : D σ = .fail ∧ E st st' := by
  have := h st σ hs
  rw [hr] at this
  exact this

theorem Spec.panic {n p m la D E} (h : Spec cfg input n p m la D E) {st σ} (hs : Sim input m la st σ)
    (hr : run cfg n p st = .panic) : D σ = .stuck := by
  have := h st σ hs
  rw [hr] at this
  exact this

theorem Spec.weaken {n p m la D E E'} (h : Spec cfg input n p m la D E) (hE : ∀ a b, E a b → E' a b) :
    Spec cfg input n p m la D E' := by
  intro st σ hs
  have := h st σ hs
  cases hr : run cfg n p st <;> rw [hr] at this <;> simp only [] at this ⊢
  · exact this
  · exact ⟨this.1, hE _ _ this.2⟩
  · exact this

theorem Spec.congr {n p m la D D' E} (h : Spec cfg input n p m la D E) (hD : ∀ σ, D σ = D' σ) :
    Spec cfg input n p m la D' E := by
  have : D = D' := funext hD
  rw [← this]; exact h

theorem Rest.mono {cl cl' : Prop} (h : cl' → cl) {a b : PState} (r : Rest cl a b) : Rest cl' a b :=
  ⟨r.1, r.2.1, fun c => r.2.2 (h c)⟩

theorem Rest.trans {cl cl' : Prop} {a b c : PState} (r1 : Rest True a b) (r2 : Rest cl' b c) (_h : cl → cl' := by exact id) :
    Rest cl' a c :=
  ⟨r2.1.trans r1.1, r2.2.1.trans r1.2.1, fun x => (r2.2.2 x).trans (r1.2.2 trivial)⟩

/-! ### moving `Sim` along a run -/

theorem Sim.of_rel {m la} {st st' : PState} {σ σ' : St} (hs : Sim input m la st σ) (r : Rel st st')
    (hc : st'.calls = none) (hp : st'.pos = σ'.pos) (hk : st'.stack.cache = σ'.stack) :
    Sim input m la st' σ' where
  inp := r.input.trans hs.inp
  pos := hp
  stk := hk
  inv := (r.stk hs.inv).1
  bnd := by
    have := r.bnd (by rw [hs.inp]; exact hs.bnd)
    rwa [hs.inp] at this
  atom := r.atom.trans hs.atom
  la := by rw [r.la]; exact hs.la
  calls := hc
  en := r.en.trans hs.en

theorem calls_none_of_run {n p} {st st' : PState} (h : (run cfg n p st).state? = some st')
    (hc : st.calls = none) : st'.calls = none :=
  (run_callsMono cfg n p st st' h).1 hc

theorem Sim.next_ok {n p m la} {st st' : PState} {σ σ' : St} (hs : Sim input m la st σ)
    (hr : run cfg n p st = .ok st') (hp : st'.pos = σ'.pos) (hk : st'.stack.cache = σ'.stack) :
    Sim input m la st' σ' :=
  hs.of_rel (run_ok_rel hr) (calls_none_of_run (by rw [hr]; rfl) hs.calls) hp hk

theorem Sim.next_err {n p m la} {st st' : PState} {σ : St} (hs : Sim input m la st σ)
    (hr : run cfg n p st = .err st') (hR : Rest True st st') : Sim input m la st' σ :=
  hs.of_rel (run_err_rel hr) (calls_none_of_run (by rw [hr]; rfl) hs.calls) (hR.1.trans hs.pos)
    ((hR.2.2 trivial).trans hs.stk)

theorem Sim.incCall {m la} {st : PState} {σ : St} (hs : Sim input m la st σ) : incCall st = some st := by
  unfold PS.incCall
  rw [hs.calls]

end PestModel.VmRef
