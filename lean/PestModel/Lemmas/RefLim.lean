import PestModel.Lemmas.RefMono
/-! C05 helper lemmas, part 3: `step` is continuous; the limit semantics `V c` is a fixed point. -/
namespace PestModel.Ref
open PestModel.G
open PestModel.LineCol (Str bLen cLen splitAt?)
open PestModel.Views (Tree)
open PestModel.PS (Atomicity CharSet restAt asciiLower eqIgnoreAsciiCase normalizeIndex)

def Chain (f : Nat → Res) : Prop := ∀ n, (f n).le (f (n + 1))

/-- the sequence is eventually constant `= r`. -/
def Conv (f : Nat → Res) (r : Res) : Prop := ∃ N, ∀ n, N ≤ n → f n = r

open Classical in
noncomputable def lim (f : Nat → Res) : Res :=
  if h : ∃ n, f n ≠ .fuel then f (Classical.choose h) else .fuel

theorem chain_le {f : Nat → Res} (hc : Chain f) {n n' : Nat} (h : n ≤ n') : (f n).le (f n') := by
  induction h with
  | refl => exact Res.le_refl _
  | step _ ih => exact Res.le_trans ih (hc _)

theorem conv_lim {f : Nat → Res} (hc : Chain f) : Conv f (lim f) := by
  unfold lim
  split
  · rename_i h
    refine ⟨Classical.choose h, fun n hn => ?_⟩
    rcases chain_le hc hn with h1 | h1
    · exact absurd h1 (Classical.choose_spec h)
    · exact h1.symm
  · rename_i h
    refine ⟨0, fun n _ => ?_⟩
    apply Classical.byContradiction
    intro hne
    exact h ⟨n, hne⟩

theorem conv_unique {f : Nat → Res} {r r' : Res} (h : Conv f r) (h' : Conv f r') : r = r' := by
  obtain ⟨N, hN⟩ := h
  obtain ⟨N', hN'⟩ := h'
  rw [← hN (N + N') (by omega), ← hN' (N + N') (by omega)]

theorem conv_const (r : Res) : Conv (fun _ => r) r := ⟨0, fun _ _ => rfl⟩

theorem conv_of_shift {f : Nat → Res} {r : Res} (h : Conv (fun n => f (n + 1)) r) : Conv f r := by
  obtain ⟨N, hN⟩ := h
  refine ⟨N + 1, fun n hn => ?_⟩
  have := hN (n - 1) (by omega)
  simpa [show n - 1 + 1 = n by omega] using this

theorem conv_shift {f : Nat → Res} {r : Res} (h : Conv f r) : Conv (fun n => f (n + 1)) r := by
  obtain ⟨N, hN⟩ := h
  exact ⟨N, fun n hn => hN (n + 1) (by omega)⟩

theorem conv1 {f g : Nat → Res} {r r' : Res} (h1 : Conv f r) (H : ∀ n, f n = r → g n = r') : Conv g r' := by
  obtain ⟨N, hN⟩ := h1
  exact ⟨N, fun n hn => H n (hN n hn)⟩

theorem conv2 {f1 f2 g : Nat → Res} {r1 r2 r' : Res} (h1 : Conv f1 r1) (h2 : Conv f2 r2)
    (H : ∀ n, f1 n = r1 → f2 n = r2 → g n = r') : Conv g r' := by
  obtain ⟨N1, hN1⟩ := h1
  obtain ⟨N2, hN2⟩ := h2
  exact ⟨N1 + N2, fun n hn => H n (hN1 n (by omega)) (hN2 n (by omega))⟩

theorem conv3 {f1 f2 f3 g : Nat → Res} {r1 r2 r3 r' : Res} (h1 : Conv f1 r1) (h2 : Conv f2 r2) (h3 : Conv f3 r3)
    (H : ∀ n, f1 n = r1 → f2 n = r2 → f3 n = r3 → g n = r') : Conv g r' := by
  obtain ⟨N1, hN1⟩ := h1
  obtain ⟨N2, hN2⟩ := h2
  obtain ⟨N3, hN3⟩ := h3
  exact ⟨N1 + N2 + N3, fun n hn => H n (hN1 n (by omega)) (hN2 n (by omega)) (hN3 n (by omega))⟩

structure FamConv (X : Nat → Fam) (Y : Fam) : Prop where
  d : ∀ m la e s, Conv (fun n => (X n).d m la e s) (Y.d m la e s)
  l : ∀ m la e s acc, Conv (fun n => (X n).l m la e s acc) (Y.l m la e s acc)
  k : ∀ m la s, Conv (fun n => (X n).k m la s) (Y.k m la s)
  st : ∀ la n s acc, Conv (fun i => (X i).st la n s acc) (Y.st la n s acc)
  cl : ∀ la s acc, Conv (fun n => (X n).cl la s acc) (Y.cl la s acc)
  ca : ∀ m la n s, Conv (fun i => (X i).ca m la n s) (Y.ca m la n s)

theorem denoteF_conv (c : Ctx) {X : Nat → Fam} {Y : Fam} (h : FamConv X Y) m la e s :
    Conv (fun n => denoteF c (X n) m la e s) (denoteF c Y m la e s) := by
  cases e <;> simp only [denoteF] <;> try exact conv_const _
  case ident n => exact h.ca m la n s
  case posPred e =>
    have h1 := h.d m true e s
    exact conv1 h1 (fun n e1 => by simp only [e1])
  case negPred e =>
    have h1 := h.d m true e s
    exact conv1 h1 (fun n e1 => by simp only [e1])
  case seq a b =>
    have h1 := h.d m la a s
    cases hy1 : Y.d m la a s with
    | ok s1 f1 =>
      have h2 := h.k m la s1
      cases hy2 : Y.k m la s1 with
      | ok s2 f2 =>
        have h3 := h.d m la b s2
        exact conv3 h1 h2 h3 (fun n e1 e2 e3 => by simp only [e1, e2, e3, hy1, hy2])
      | _ => exact conv2 h1 h2 (fun n e1 e2 => by simp only [e1, e2, hy1, hy2])
    | _ => exact conv1 h1 (fun n e1 => by simp only [e1, hy1])
  case choice a b =>
    have h1 := h.d m la a s
    have h2 := h.d m la b s
    exact conv2 h1 h2 (fun n e1 e2 => by simp only [e1, e2])
  case opt e =>
    have h1 := h.d m la e s
    exact conv1 h1 (fun n e1 => by simp only [e1])
  case rep e =>
    have h1 := h.d m la e s
    cases hy1 : Y.d m la e s with
    | ok s1 f1 =>
      have h2 := h.l m la e s1 f1
      exact conv2 h1 h2 (fun n e1 e2 => by simp only [e1, e2, hy1])
    | _ => exact conv1 h1 (fun n e1 => by simp only [e1, hy1])
  case repOnce e =>
    split
    · have h1 := h.d m la e s
      cases hy1 : Y.d m la e s with
      | ok s1 f1 =>
        have h2 := h.l m la e s1 f1
        exact conv2 h1 h2 (fun n e1 e2 => by simp only [e1, e2, hy1])
      | _ => exact conv1 h1 (fun n e1 => by simp only [e1, hy1])
    · exact h.d ..
  case push e =>
    have h1 := h.d m la e s
    exact conv1 h1 (fun n e1 => by simp only [e1])
  case nodeTag e t =>
    have h1 := h.d m la e s
    exact conv1 h1 (fun n e1 => by simp only [e1])
  all_goals (split <;> first | exact h.d .. | exact conv_const _)

theorem repLoopF_conv {X : Nat → Fam} {Y : Fam} (h : FamConv X Y) m la e s acc :
    Conv (fun n => repLoopF (X n) m la e s acc) (repLoopF Y m la e s acc) := by
  simp only [repLoopF]
  have h1 := h.k m la s
  cases hy1 : Y.k m la s with
  | ok s1 f1 =>
    have h2 := h.d m la e s1
    cases hy2 : Y.d m la e s1 with
    | ok s2 f2 =>
      have h3 := h.l m la e s2 (acc ++ f1 ++ f2)
      exact conv3 h1 h2 h3 (fun n e1 e2 e3 => by simp only [e1, e2, e3, hy1, hy2])
    | _ => exact conv2 h1 h2 (fun n e1 e2 => by simp only [e1, e2, hy1, hy2])
  | _ => exact conv1 h1 (fun n e1 => by simp only [e1, hy1])

theorem skipWsF_conv (c : Ctx) {X : Nat → Fam} {Y : Fam} (h : FamConv X Y) m la s :
    Conv (fun n => skipWsF c (X n) m la s) (skipWsF c Y m la s) := by
  simp only [skipWsF]
  split
  · exact conv_const _
  · split
    · exact conv_const _
    · exact h.st ..
    · exact h.st ..
    · have h1 := h.st la "WHITESPACE" s []
      cases hy1 : Y.st la "WHITESPACE" s [] with
      | ok s1 f1 =>
        have h2 := h.cl la s1 f1
        exact conv2 h1 h2 (fun n e1 e2 => by simp only [e1, e2, hy1])
      | _ => exact conv1 h1 (fun n e1 => by simp only [e1, hy1])

theorem starF_conv {X : Nat → Fam} {Y : Fam} (h : FamConv X Y) la nm s acc :
    Conv (fun n => starF (X n) la nm s acc) (starF Y la nm s acc) := by
  simp only [starF]
  have h1 := h.ca .nonAtomic la nm s
  cases hy1 : Y.ca .nonAtomic la nm s with
  | ok s1 f1 =>
    have h2 := h.st la nm s1 (acc ++ f1)
    exact conv2 h1 h2 (fun n e1 e2 => by simp only [e1, e2, hy1])
  | _ => exact conv1 h1 (fun n e1 => by simp only [e1, hy1])

theorem commentLoopF_conv {X : Nat → Fam} {Y : Fam} (h : FamConv X Y) la s acc :
    Conv (fun n => commentLoopF (X n) la s acc) (commentLoopF Y la s acc) := by
  simp only [commentLoopF]
  have h1 := h.ca .nonAtomic la "COMMENT" s
  cases hy1 : Y.ca .nonAtomic la "COMMENT" s with
  | ok s1 f1 =>
    have h2 := h.st la "WHITESPACE" s1 []
    cases hy2 : Y.st la "WHITESPACE" s1 [] with
    | ok s2 f2 =>
      have h3 := h.cl la s2 (acc ++ f1 ++ f2)
      exact conv3 h1 h2 h3 (fun n e1 e2 e3 => by simp only [e1, e2, e3, hy1, hy2])
    | _ => exact conv2 h1 h2 (fun n e1 e2 => by simp only [e1, e2, hy1, hy2])
  | _ => exact conv1 h1 (fun n e1 => by simp only [e1, hy1])

theorem callF_conv (c : Ctx) {X : Nat → Fam} {Y : Fam} (h : FamConv X Y) m la nm s :
    Conv (fun n => callF c (X n) m la nm s) (callF c Y m la nm s) := by
  simp only [callF]
  split
  · rename_i id r _
    have h1 := h.d (bodyMode r.name r.ty m) la r.expr s
    exact conv1 h1 (fun n e1 => by simp only [e1])
  · exact conv_const _

theorem step_conv (c : Ctx) {X : Nat → Fam} {Y : Fam} (h : FamConv X Y) :
    FamConv (fun n => step c (X n)) (step c Y) :=
  ⟨denoteF_conv c h, repLoopF_conv h, skipWsF_conv c h, starF_conv h, commentLoopF_conv h, callF_conv c h⟩

/-- the limit semantics. -/
noncomputable def V (c : Ctx) : Fam where
  d m la e s := lim fun n => denote c n m la e s
  l m la e s acc := lim fun n => repLoop c n m la e s acc
  k m la s := lim fun n => skipWs c n m la s
  st la nm s acc := lim fun n => star c n la nm s acc
  cl la s acc := lim fun n => commentLoop c n la s acc
  ca m la nm s := lim fun n => call c n m la nm s

theorem lev_conv (c : Ctx) : FamConv (lev c) (V c) := by
  constructor <;> intros <;> apply conv_lim <;> intro n
  · exact (lev_mono1 c n).d ..
  · exact (lev_mono1 c n).l ..
  · exact (lev_mono1 c n).k ..
  · exact (lev_mono1 c n).st ..
  · exact (lev_mono1 c n).cl ..
  · exact (lev_mono1 c n).ca ..

theorem V_fix (c : Ctx) : V c = step c (V c) := by
  have h1 := lev_conv c
  have h2 := step_conv c h1
  have e : (fun n => step c (lev c n)) = fun n => lev c (n + 1) := by funext n; rw [lev_succ]
  rw [e] at h2
  have hd : ∀ m la e s, (V c).d m la e s = (step c (V c)).d m la e s :=
    fun m la e s => conv_unique (h1.d m la e s) (conv_of_shift (h2.d m la e s))
  have hl : ∀ m la e s acc, (V c).l m la e s acc = (step c (V c)).l m la e s acc :=
    fun m la e s acc => conv_unique (h1.l m la e s acc) (conv_of_shift (h2.l m la e s acc))
  have hk : ∀ m la s, (V c).k m la s = (step c (V c)).k m la s :=
    fun m la s => conv_unique (h1.k m la s) (conv_of_shift (h2.k m la s))
  have hst : ∀ la nm s acc, (V c).st la nm s acc = (step c (V c)).st la nm s acc :=
    fun la nm s acc => conv_unique (h1.st la nm s acc) (conv_of_shift (h2.st la nm s acc))
  have hcl : ∀ la s acc, (V c).cl la s acc = (step c (V c)).cl la s acc :=
    fun la s acc => conv_unique (h1.cl la s acc) (conv_of_shift (h2.cl la s acc))
  have hca : ∀ m la nm s, (V c).ca m la nm s = (step c (V c)).ca m la nm s :=
    fun m la nm s => conv_unique (h1.ca m la nm s) (conv_of_shift (h2.ca m la nm s))
  cases hV : V c with
  | mk d l k st cl ca =>
    rw [hV] at hd hl hk hst hcl hca
    simp only [step, Fam.mk.injEq]
    exact ⟨funext fun m => funext fun la => funext fun e => funext fun s => hd m la e s,
      funext fun m => funext fun la => funext fun e => funext fun s => funext fun acc => hl m la e s acc,
      funext fun m => funext fun la => funext fun s => hk m la s,
      funext fun la => funext fun nm => funext fun s => funext fun acc => hst la nm s acc,
      funext fun la => funext fun s => funext fun acc => hcl la s acc,
      funext fun m => funext fun la => funext fun nm => funext fun s => hca m la nm s⟩

end PestModel.Ref
