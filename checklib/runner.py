"""Shared machinery of ./check: Lean build + axiom audit, harness build, correspondence
(diff of implementation vs. model output through the line protocol), shrinking,
classification into VIOLATION / KNOWN-FINDING, evidence and replay files."""
import argparse, glob, importlib, json, os, re, shutil, subprocess, sys, time

VERIF = os.path.dirname(os.path.dirname(os.path.abspath(__file__)))
REPO = os.environ.get("VERIF_REPO", "/repo")
BUILD = os.path.join(VERIF, "build")
LEAN = os.path.join(VERIF, "lean")
HARNESS = os.path.join(VERIF, "harness")
# runs against a seeded change (tools/seeded.py) write their replay and evidence files elsewhere
_OUT = os.environ.get("VERIF_OUT_DIR")
REPLAY = os.path.join(_OUT, "replay") if _OUT else os.path.join(VERIF, "replay")
EVIDENCE = os.path.join(_OUT, "evidence") if _OUT else os.path.join(VERIF, "evidence")
PESTMODEL = os.path.join(LEAN, ".lake", "build", "bin", "pestmodel")
ALLOWED_AXIOMS = {"propext", "Classical.choice", "Quot.sound"}
FORBIDDEN = re.compile(r"\bsorry\b|\badmit\b|^\s*axiom\s|native_decide|bv_decide|implemented_by|\bunsafe\s|maxHeartbeats\s+0\b")
GUARD = "pest_parser_pest_verif"

FEATURESETS = {
    # name -> cargo feature arguments for the harness crate
    "default": [],
    "nomemchr": ["--no-default-features"],
    "extras": ["--features", "extras"],
    "pretty": ["--features", "pretty"],
    "dbg": ["--features", "dbg"],
    "derive_extras": ["--features", "derive_extras"],
}


def log(msg):
    print(msg, flush=True)


def sh(cmd, cwd=None, env=None, timeout=None, stdin=None):
    e = dict(os.environ)
    e.update({"CARGO_NET_OFFLINE": "true", "GOPROXY": "off", "PIP_NO_INDEX": "1"})
    if env:
        e.update(env)
    p = subprocess.run(cmd, cwd=cwd, env=e, stdin=stdin, stdout=subprocess.PIPE, stderr=subprocess.STDOUT,
                       timeout=timeout, text=True, errors="replace")
    out = "\n".join(l for l in p.stdout.splitlines() if "conda.cli.condarc" not in l)
    return p.returncode, out


# --------------------------------------------------------------------------- Lean

def strip_comments(src):
    """Remove Lean block comments (nested) and line comments; keep string literals naive."""
    out, i, depth, n = [], 0, 0, len(src)
    while i < n:
        if src.startswith("/-", i):
            depth += 1; i += 2; continue
        if depth and src.startswith("-/", i):
            depth -= 1; i += 2; continue
        if depth:
            if src[i] == "\n":
                out.append("\n")
            i += 1; continue
        if src.startswith("--", i):
            while i < n and src[i] != "\n":
                i += 1
            continue
        out.append(src[i]); i += 1
    return "".join(out)


def lean_sources_of(module):
    """Transitive PestModel.* imports of a module -> list of source paths."""
    seen, todo = {}, [module]
    while todo:
        m = todo.pop()
        if m in seen or not m.startswith("PestModel"):
            continue
        path = os.path.join(LEAN, *m.split(".")) + ".lean"
        if not os.path.exists(path):
            continue
        seen[m] = path
        for l in open(path):
            mm = re.match(r"\s*(?:public\s+)?import\s+([\w.]+)", l)
            if mm:
                todo.append(mm.group(1))
    return seen


def forbidden_scan(module):
    hits = []
    for m, path in sorted(lean_sources_of(module).items()):
        src = strip_comments(open(path).read())
        for k, l in enumerate(src.splitlines(), 1):
            if FORBIDDEN.search(l):
                hits.append(f"{os.path.relpath(path, VERIF)}:{k}: {l.strip()[:120]}")
    return hits


def run_translators():
    """Regenerate lean/PestModel/Gen/*.lean from /repo's working tree (every run)."""
    msgs = []
    for tr in sorted(glob.glob(os.path.join(VERIF, "translators", "tr_*.py"))):
        rc, out = sh(["python3", tr, REPO], cwd=VERIF, timeout=600)
        msgs.append((os.path.basename(tr), rc, out[-500:]))
    # grammar translator: a harness binary, because it reads the .pest files with the real pest_meta
    lock_src = os.path.join(REPO, "Cargo.lock")
    if os.path.exists(lock_src):
        shutil.copyfile(lock_src, os.path.join(HARNESS, "Cargo.lock"))
    tdir = os.path.join(BUILD, "target-default")
    rc, out = sh(["cargo", "build", "--offline", "--bin", "tr_grammar"], cwd=HARNESS,
                 env={"CARGO_TARGET_DIR": tdir, "RUSTFLAGS": f"--cfg {GUARD}"}, timeout=1800)
    if rc == 0:
        rc, out = sh([os.path.join(tdir, "debug", "tr_grammar"), REPO, os.path.join(LEAN, "PestModel", "Gen")], timeout=600)
    msgs.append(("tr_grammar", rc, out[-800:]))
    return msgs


def lake_build(targets, timeout=3000):
    t0 = time.time()
    tr = run_translators()
    bad = [m for m in tr if m[1] != 0]
    if bad:
        return False, "translator failed: " + json.dumps(bad), time.time() - t0
    rc, out = sh(["lake", "build"] + targets, cwd=LEAN, timeout=timeout)
    return rc == 0, out, time.time() - t0


def theorems_in(module):
    """Names of the theorems declared in a Thm module (with their namespace)."""
    path = os.path.join(LEAN, *module.split(".")) + ".lean"
    src = strip_comments(open(path).read())
    ns, names = [], []
    for l in src.splitlines():
        m = re.match(r"\s*namespace\s+([\w.]+)", l)
        if m:
            ns.append(m.group(1)); continue
        m = re.match(r"\s*end\s+([\w.]+)", l)
        if m and ns and ns[-1] == m.group(1):
            ns.pop(); continue
        m = re.match(r"\s*(?:@\[[^\]]*\]\s*)?(?:private\s+|protected\s+)?theorem\s+([\w.']+)", l)
        if m:
            names.append(".".join(ns + [m.group(1)]))
    return names


def audit(prop, module, extra_allowed=()):
    """`#print axioms` for every theorem of the Thm module(s). Returns dict."""
    modules = [module] if isinstance(module, str) else list(module)
    names = [n for m in modules for n in theorems_in(m)]
    os.makedirs(os.path.join(BUILD, "audit"), exist_ok=True)
    f = os.path.join(BUILD, "audit", f"Audit_{prop}.lean")
    with open(f, "w") as fh:
        for m in modules:
            fh.write(f"import {m}\n")
        for n in names:
            fh.write(f"#print axioms {n}\n")
    rc, out = sh(["lake", "env", "lean", f], cwd=LEAN, timeout=1200)
    axioms, cur = {}, None
    # output: "'name' depends on axioms: [a, b]" possibly wrapped, or "'name' does not depend on any axioms"
    text = re.sub(r"\n\s+", " ", out)
    for l in text.splitlines():
        m = re.match(r"'(.+)' depends on axioms: \[(.*)\]", l)
        if m:
            axioms[m.group(1)] = [a.strip() for a in m.group(2).split(",") if a.strip()]
            continue
        m = re.match(r"'(.+)' does not depend on any axioms", l)
        if m:
            axioms[m.group(1)] = []
    allowed = ALLOWED_AXIOMS | set(extra_allowed)
    bad = {}
    for n in names:
        if n not in axioms:
            bad[n] = "not found / did not elaborate"
        elif not set(axioms[n]) <= allowed:
            bad[n] = "axioms " + ",".join(sorted(set(axioms[n]) - allowed))
    return {"theorems": names, "axioms": axioms, "bad": bad, "rc": rc, "log": out[-3000:]}


# --------------------------------------------------------------------------- Rust harness

def cargo_build(fs_name, bins, timeout=3000, crate=HARNESS):
    """Build harness binaries against /repo's working tree with the hook cfg on."""
    lock_src = os.path.join(REPO, "Cargo.lock")
    if os.path.exists(lock_src):
        shutil.copyfile(lock_src, os.path.join(crate, "Cargo.lock"))
    tdir = os.path.join(BUILD, "target-" + fs_name)
    cmd = ["cargo", "build", "--offline"] + FEATURESETS[fs_name]
    for b in bins:
        cmd += ["--bin", b]
    env = {"CARGO_TARGET_DIR": tdir, "RUSTFLAGS": f"--cfg {GUARD}"}
    t0 = time.time()
    rc, out = sh(cmd, cwd=crate, env=env, timeout=timeout)
    return rc == 0, out, os.path.join(tdir, "debug"), time.time() - t0


def run_model(mode, ops_path, out_path, timeout=3000):
    with open(ops_path) as fin, open(out_path, "w") as fout:
        p = subprocess.run([PESTMODEL] + mode.split(), stdin=fin, stdout=fout, stderr=subprocess.PIPE, timeout=timeout)
    return p.returncode == 0, p.stderr.decode(errors="replace")


def read_lines(path):
    with open(path, errors="replace") as f:
        return f.read().split("\n")[:-1] if os.path.getsize(path) else []


class Corr:
    """Result of one correspondence run (one driver invocation)."""
    def __init__(self, name):
        self.name = name
        self.n = 0
        self.mismatch = []      # (index, op, impl, model)
        self.oracle_fail = []   # (index, op, impl, verdict)
        self.stats = {}
        self.error = None
        self.wall = 0.0


def correspond(name, drv_bin, drv_args, mode, outdir, timeout=3000):
    """Run a driver (gen or run), pipe its ops to the model, diff, collect oracle verdicts."""
    c = Corr(name)
    t0 = time.time()
    shutil.rmtree(outdir, ignore_errors=True)
    os.makedirs(outdir, exist_ok=True)
    try:
        rc, out = sh([drv_bin] + drv_args + [outdir], timeout=timeout)
    except subprocess.TimeoutExpired:
        c.error = f"driver {name} timed out"; return c
    if rc != 0:
        c.error = f"driver {name} exited {rc}: {out[-2000:]}"; return c
    ops = read_lines(os.path.join(outdir, "ops.txt"))
    imp = read_lines(os.path.join(outdir, "impl.txt"))
    orc = read_lines(os.path.join(outdir, "oracle.txt"))
    try:
        c.stats = json.load(open(os.path.join(outdir, "stats.json")))
    except Exception:
        c.stats = {}
    if mode is not None:
        ok, err = run_model(mode, os.path.join(outdir, "ops.txt"), os.path.join(outdir, "model.txt"), timeout=timeout)
        if not ok:
            c.error = f"pestmodel {mode} failed: {err[-2000:]}"; return c
        mod = read_lines(os.path.join(outdir, "model.txt"))
    else:
        mod = imp
    c.n = len(ops)
    if not (len(ops) == len(imp) == len(orc) == len(mod)):
        c.error = f"{name}: line counts differ ops={len(ops)} impl={len(imp)} oracle={len(orc)} model={len(mod)}"
        return c
    for i in range(len(ops)):
        if imp[i] != mod[i]:
            c.mismatch.append((i, ops[i], imp[i], mod[i]))
        if orc[i] != "ok":
            c.oracle_fail.append((i, ops[i], imp[i], orc[i]))
    c.wall = time.time() - t0
    return c


def eval_lines(drv_bin, mode, lines, workdir, timeout=600):
    """Evaluate request lines on implementation, model and oracle. Returns list of (impl, model, oracle)."""
    os.makedirs(workdir, exist_ok=True)
    opsf = os.path.join(workdir, "in.txt")
    with open(opsf, "w") as f:
        for l in lines:
            f.write(l + "\n")
    out = os.path.join(workdir, "o")
    shutil.rmtree(out, ignore_errors=True)
    rc, _ = sh([drv_bin, "run", opsf, out], timeout=timeout)
    if rc != 0:
        return None
    imp = read_lines(os.path.join(out, "impl.txt")); orc = read_lines(os.path.join(out, "oracle.txt"))
    if mode is not None:
        ok, _ = run_model(mode, opsf, os.path.join(out, "model.txt"), timeout=timeout)
        if not ok:
            return None
        mod = read_lines(os.path.join(out, "model.txt"))
    else:
        mod = imp
    if not (len(imp) == len(mod) == len(orc) == len(lines)):
        return None
    return list(zip(imp, mod, orc))


def shrink_tokens(drv_bin, mode, line, keep_prefix, still_bad, workdir, rounds=200):
    """Greedy delta-debugging on whitespace separated tokens after `keep_prefix` tokens.
    `still_bad(impl, model, oracle)` decides whether a candidate keeps the failure."""
    toks = line.split(" ")
    head, body = toks[:keep_prefix], toks[keep_prefix:]
    chunk = max(1, len(body) // 2)
    for _ in range(rounds):
        if chunk < 1 or not body:
            break
        cands = []
        for s in range(0, len(body), chunk):
            cands.append(body[:s] + body[s + chunk:])
        res = eval_lines(drv_bin, mode, [" ".join(head + c) for c in cands], workdir)
        if res is None:
            break
        hit = next((k for k, r in enumerate(res) if still_bad(*r)), None)
        if hit is not None:
            body = cands[hit]
            chunk = min(chunk, max(1, len(body) // 2)) if chunk > 1 else 1
        elif chunk > 1:
            chunk //= 2
        else:
            break
    return " ".join(head + body)


# --------------------------------------------------------------------------- findings, replay, evidence

def load_known():
    p = os.path.join(VERIF, "known_findings.json")
    if not os.path.exists(p):
        return []
    return json.load(open(p)).get("findings", [])


class Ctx:
    def __init__(self, prop, tier, seed):
        self.prop, self.tier, self.seed = prop, tier, seed
        self.t0 = time.time()
        self.violations = []     # dicts with 'replay', 'no_input'
        self.known_hits = {}     # finding id -> text
        self.known = [k for k in load_known() if k.get("property") == prop and k.get("status") == "known"]
        self.replay_n = 0
        self.notes = []
        self.rundir = os.path.join(BUILD, "run", prop)
        os.makedirs(self.rundir, exist_ok=True)
        os.makedirs(REPLAY, exist_ok=True)
        for old in glob.glob(os.path.join(REPLAY, f"{prop}-*.json")):
            os.remove(old)

    def thorough(self):
        return self.tier == "thorough"

    def violation(self, payload, no_input=False):
        """Record a violation; writes the replay file and prints the VIOLATION line."""
        self.replay_n += 1
        path = os.path.join(REPLAY, f"{self.prop}-{self.replay_n}.json")
        payload = dict(payload)
        payload.update({"property": self.prop, "seed": self.seed, "tier": self.tier,
                        "no_failing_input_found": bool(no_input)})
        with open(path, "w") as f:
            json.dump(payload, f, indent=1)
        self.violations.append({"replay": path, "no_input": no_input})
        log(f"VIOLATION property={self.prop} replay={path}" + (" no-failing-input-found" if no_input else ""))

    def known_finding(self, fid, text):
        if fid not in self.known_hits:
            self.known_hits[fid] = text
            log(f"KNOWN-FINDING: property={self.prop} {text}")

    def match_known(self, pred):
        """First known finding (of this property) whose entry satisfies pred(entry)."""
        for k in self.known:
            try:
                if pred(k):
                    return k
            except Exception:
                pass
        return None

    def evidence(self, level, coverage, assumptions):
        os.makedirs(EVIDENCE, exist_ok=True)
        ev = {"property_id": self.prop, "tier": self.tier, "seed": self.seed, "level": level,
              "coverage": coverage, "assumptions": assumptions,
              "wall_s": round(time.time() - self.t0, 2), "violations": len(self.violations),
              "known_findings_hit": sorted(self.known_hits.keys())}
        with open(os.path.join(EVIDENCE, f"{self.prop}.json"), "w") as f:
            json.dump(ev, f, indent=1)
            f.write("\n")


def proof_leg(ctx, module, extra_allowed=(), extra_targets=()):
    """Build the theorem module and the driver, scan for forbidden constructs, audit axioms.
    Returns (coverage-fragment, ok). On failure records nothing itself: the caller searches."""
    modules = [module] if isinstance(module, str) else list(module)
    ok, out, wall = lake_build(modules + ["pestmodel"] + list(extra_targets))
    frag = {"lean_build_s": round(wall, 1), "checker_cmd": f"cd lean && lake build {' '.join(modules)} pestmodel && lake env lean build/audit/Audit_{ctx.prop}.lean  (#print axioms)"}
    problems = []
    if not ok:
        problems.append("lake build failed: " + out[-3000:])
        names = []
        try:
            names = [n for m in modules for n in theorems_in(m)]
        except Exception:
            pass
        frag.update({"obligations": max(1, len(names)), "discharged": 0, "theorems": names})
        return frag, problems
    hits = [h for m in modules for h in forbidden_scan(m)]
    hits = sorted(set(hits))
    if hits:
        problems.append("forbidden constructs: " + "; ".join(hits[:10]))
    a = audit(ctx.prop, module, extra_allowed)
    for n, why in a["bad"].items():
        problems.append(f"theorem {n}: {why}")
    frag.update({
        "obligations": len(a["theorems"]),
        "discharged": len(a["theorems"]) - len(a["bad"]),
        "theorems": a["theorems"],
        "axioms_used": {n: a["axioms"].get(n) for n in a["theorems"]},
    })
    return frag, problems


TRUSTED_COMMON = [
    "Lean 4.33.0 kernel (lake build; leanchecker re-check in thorough tier)",
    "axioms allowed: propext, Classical.choice, Quot.sound (audited with #print axioms on every run)",
    "the hand-written Lean model is tied to /repo only by the correspondence run (differential testing: as strong as its generators)",
    "rustc/std (Vec, str slicing), the Rust harness and its generators, this runner",
]


def leanchecker(modules):
    rc, out = sh(["lake", "env", "leanchecker"] + modules, cwd=LEAN, timeout=3000)
    return rc == 0, out[-1000:]


def main(argv):
    ap = argparse.ArgumentParser()
    ap.add_argument("prop", nargs="?")
    ap.add_argument("--tier", default=os.environ.get("VERIF_TIER", "quick"))
    ap.add_argument("--seed", type=int, default=int(os.environ.get("VERIF_SEED", "20260925")))
    ap.add_argument("--replay")
    ap.add_argument("--setup", action="store_true")
    a = ap.parse_args(argv)
    if a.tier not in ("quick", "thorough"):
        a.tier = "quick"
    if a.setup:
        return setup()
    if not a.prop:
        ap.error("property id required")
    try:
        mod = importlib.import_module("props." + a.prop)
    except ImportError as e:
        log(f"unknown property {a.prop}: {e}")
        return 2
    ctx = Ctx(a.prop, a.tier, a.seed)
    if a.replay:
        return mod.replay(ctx, a.replay)
    mod.run(ctx)
    return 1 if ctx.violations else 0


def setup():
    """Build everything from disk (offline): Lean library + theorem modules + driver, harness."""
    thm = sorted(os.path.basename(p)[:-5] for p in glob.glob(os.path.join(LEAN, "PestModel", "Thm", "*.lean")))
    ok, out, wall = lake_build(["PestModel", "pestmodel"] + [f"PestModel.Thm.{t}" for t in thm])
    log(out[-2000:])
    if not ok:
        log("setup: lake build failed (checks will report it)")
    bins = sorted(os.path.basename(p)[:-3] for p in glob.glob(os.path.join(HARNESS, "src", "bin", "*.rs")))
    ok2, out2, _, _ = cargo_build("default", [b for b in bins if b != "drv_dbg"])
    log(out2[-2000:])
    ok3, out3, _, _ = cargo_build("dbg", ["drv_dbg"])
    log(out3[-1000:])
    return 0 if ok and ok2 and ok3 else 1


def level_of(prop):
    """The level category currently claimed in MANIFEST.json for a property."""
    m = json.load(open(os.path.join(VERIF, "MANIFEST.json")))
    for c in m["checks"]:
        if c["property_id"] == prop:
            return c["level_claimed"]["category"]
    return "other"
