import PestModel.Lemmas.Validator
import PestModel.Lemmas.ValidatorFwd
/-! C06 helper lemmas, part 2: the inductive reading `Prog` of "`is_non_progressing` = false"
(no fuel, no trace cut-off) and its meaning: a `Prog` expression that matches has consumed input. -/
namespace PestModel.V
open PestModel.G PestModel.Ref
open PestModel.LineCol (Str bLen cLen)
open PestModel.Views (Tree)
open PestModel.PS (Atomicity CharSet)

/-- the stack built-ins. -/
def stackNames : List String := ["PUSH", "PEEK", "PEEK_ALL", "POP", "POP_ALL", "DROP"]

/-- the expression does not use the stack. -/
def SF : Expr → Bool
  | .ident n => !stackNames.contains n
  | .peekSlice _ _ | .push _ | .pushLiteral _ => false
  | .posPred e | .negPred e | .opt e | .rep e | .repOnce e | .nodeTag e _ => SF e
  | .repExact e _ | .repMin e _ | .repMax e _ | .repMinMax e _ _ => SF e
  | .seq a b | .choice a b => SF a && SF b
  | _ => true

/-- `e` consumes at least one byte whenever it matches: the least-fixed-point reading of
`isNonProgressing … = false`. -/
inductive Prog (rules : List Rule) : Expr → Prop
  | str {s : Str} : s ≠ [] → Prog rules (.str s)
  | insens {s : Str} : s ≠ [] → Prog rules (.insens s)
  | range (a b : Char) : Prog rules (.range a b)
  | builtin {n : String} : lookup rules n = none → n ≠ "SOI" → n ≠ "EOI" → n ∉ stackNames → Prog rules (.ident n)
  | rule {n : String} {body : Expr} : lookup rules n = some body → Prog rules body → Prog rules (.ident n)
  | seqL {a b : Expr} : Prog rules a → Prog rules (.seq a b)
  | seqR {a b : Expr} : Prog rules b → Prog rules (.seq a b)
  | choice {a b : Expr} : Prog rules a → Prog rules b → Prog rules (.choice a b)
  | repOnce {e : Expr} : Prog rules e → Prog rules (.repOnce e)
  | nodeTag {e : Expr} {t : Str} : Prog rules e → Prog rules (.nodeTag e t)
  | repExact {e : Expr} {n : Nat} : n ≠ 0 → Prog rules e → Prog rules (.repExact e n)
  | repMin {e : Expr} {n : Nat} : n ≠ 0 → Prog rules e → Prog rules (.repMin e n)
  | repMinMax {e : Expr} {lo hi : Nat} : lo ≠ 0 → Prog rules e → Prog rules (.repMinMax e lo hi)

/-! ### `Ctx.rule?` and `lookup` -/

theorem rule?_go_map (name : String) (rules : List Rule) (i : Nat) :
    (Ctx.rule?.go name rules i).map (·.2) = rules.find? (·.name = name) := by
  induction rules generalizing i with
  | nil => simp [Ctx.rule?.go]
  | cons x xs ih =>
    rw [Ctx.rule?.go, List.find?_cons]
    by_cases hx : x.name = name
    · simp [hx]
    · simp only [hx, if_false, decide_false]
      exact ih (i + 1)

theorem rule?_map (c : Ctx) (name : String) : (c.rule? name).map (·.2) = c.rules.find? (·.name = name) :=
  rule?_go_map name c.rules 0

theorem lookup_of_rule? {c : Ctx} {name : String} {id : Nat} {r : Rule} (h : c.rule? name = some (id, r)) :
    lookup c.rules name = some r.expr ∧ r ∈ c.rules ∧ r.name = name := by
  have := rule?_map c name
  rw [h] at this
  simp only [Option.map_some] at this
  refine ⟨by unfold lookup; rw [← this]; rfl, List.mem_of_find?_eq_some this.symm, ?_⟩
  simpa using List.find?_some this.symm

theorem rule?_none_iff {c : Ctx} {name : String} : c.rule? name = none ↔ lookup c.rules name = none := by
  have := rule?_map c name
  unfold lookup
  constructor
  · intro h; rw [h] at this; simp at this; simp [this]
  · intro h
    cases hr : c.rule? name with
    | none => rfl
    | some p =>
      rw [hr] at this
      simp only [Option.map_some] at this
      rw [← this] at h
      simp at h

theorem rule?_of_lookup' {c : Ctx} {name : String} {body : Expr} (h : lookup c.rules name = some body) :
    ∃ id r, c.rule? name = some (id, r) ∧ r.expr = body ∧ r ∈ c.rules ∧ r.name = name := by
  cases hr : c.rule? name with
  | none => rw [rule?_none_iff.1 hr] at h; cases h
  | some p =>
    obtain ⟨id, r⟩ := p
    obtain ⟨h1, h2, h3⟩ := lookup_of_rule? hr
    rw [h1] at h
    exact ⟨id, r, rfl, by simpa using h, h2, h3⟩

/-! ### meaning of `Prog` -/

theorem bLen_pos_of_ne_nil {s : Str} (h : s ≠ []) : 0 < bLen s := by
  cases s with
  | nil => exact absurd rfl h
  | cons x xs =>
    have := PestModel.LineCol.cLen_pos x
    simp only [PestModel.LineCol.bLen_cons]; omega

set_option maxHeartbeats 400000 in
theorem builtin_progress {c : Ctx} {m la nm s s' f} (h1 : nm ≠ "SOI") (h2 : nm ≠ "EOI") (h3 : nm ∉ stackNames)
    (h : builtin c m la nm s = .ok s' f) : s.pos < s'.pos := by
  unfold builtin at h
  simp only [] at h
  simp only [stackNames, List.mem_cons, List.not_mem_nil, or_false, not_or] at h3
  split at h
  all_goals try (exact oneChar_pos_lt h)
  · exact absurd rfl h1
  · exact absurd rfl h2
  · exact absurd rfl h3.2.1
  · exact absurd rfl h3.2.2.2.1
  · exact absurd rfl h3.2.2.1
  · exact absurd rfl h3.2.2.2.2.1
  · exact absurd rfl h3.2.2.2.2.2
  · have p1 := bLen_pos_of_ne_nil (s := ['\n']) (by simp)
    have p2 := bLen_pos_of_ne_nil (s := ['\r', '\n']) (by simp)
    have p3 := bLen_pos_of_ne_nil (s := ['\r']) (by simp)
    cases hx : lit c s ['\n'] <;> simp [hx] at h
    · rw [← h.1]; have := lit_pos hx; omega
    · clear hx
      cases hx : lit c s ['\r', '\n'] <;> simp [hx] at h
      · rw [← h.1]; have := lit_pos hx; omega
      · have := lit_pos h; omega
  · split at h
    · exact oneChar_pos_lt h
    · simp at h

/-- the first element of a sequence built by `seqOfList` consumes, so the sequence does. -/
theorem seqOfList_cons_progress {c : Ctx} {m la} {e : Expr} {rest : List Expr} {u : Expr}
    (he : ∀ s s' f, val c m la e s = .ok s' f → s.pos < s'.pos)
    (hu : seqOfList (e :: rest) = some u) : ∀ s s' f, val c m la u s = .ok s' f → s.pos < s'.pos := by
  cases rest with
  | nil => simp only [seqOfList, Option.some.injEq] at hu; subst hu; exact he
  | cons y ys =>
    simp only [seqOfList] at hu
    cases hr : seqOfList (y :: ys) with
    | none => rw [hr] at hu; simp at hu
    | some u' =>
      rw [hr] at hu
      simp only [Option.map_some, Option.some.injEq] at hu
      subst hu
      intro s s' f h
      rw [val_seq] at h
      cases h1 : val c m la e s <;> simp [h1] at h
      rename_i s1 f1
      cases h2 : valK c m la s1 <;> simp [h2] at h
      rename_i s2 f2
      cases h3 : val c m la u' s2 <;> simp [h3] at h
      rename_i s3 f3
      have := he _ _ _ h1
      have := (valK_fwd h2).le
      have := (val_fwd h3).le
      rw [← h.1]; omega

theorem prog_progress {c : Ctx} {e : Expr} (hp : Prog c.rules e) :
    ∀ m la s s' f, val c m la e s = .ok s' f → s.pos < s'.pos := by
  induction hp with
  | str hs =>
    intro m la s s' f h
    rw [val_str] at h
    have := lit_pos h; have := bLen_pos_of_ne_nil hs; omega
  | insens hs =>
    intro m la s s' f h
    rw [val_insens] at h
    have := insensM_pos h; have := bLen_pos_of_ne_nil hs; omega
  | range a b =>
    intro m la s s' f h
    rw [val_range] at h
    exact oneChar_pos_lt h
  | builtin hl h1 h2 h3 =>
    intro m la s s' f h
    rw [val_ident, valCa_unfold, rule?_none_iff.2 hl] at h
    exact builtin_progress h1 h2 h3 h
  | @rule n body hl _ ih =>
    intro m la s s' f h
    obtain ⟨id, r, hr, hb, _, _⟩ := rule?_of_lookup' hl
    rw [val_ident, valCa_unfold, hr] at h
    simp only [] at h
    rw [hb] at h
    cases h1 : val c (bodyMode r.name r.ty m) la body s <;> simp [h1] at h
    have := ih _ _ _ _ _ h1
    split at h <;> simp at h <;> (rw [← h.1]; exact this)
  | @seqL a b _ ih =>
    intro m la s s' f h
    rw [val_seq] at h
    cases h1 : val c m la a s <;> simp [h1] at h
    rename_i s1 f1
    cases h2 : valK c m la s1 <;> simp [h2] at h
    rename_i s2 f2
    cases h3 : val c m la b s2 <;> simp [h3] at h
    have := ih _ _ _ _ _ h1
    have := (valK_fwd h2).le
    have := (val_fwd h3).le
    rw [← h.1]; omega
  | @seqR a b _ ih =>
    intro m la s s' f h
    rw [val_seq] at h
    cases h1 : val c m la a s <;> simp [h1] at h
    rename_i s1 f1
    cases h2 : valK c m la s1 <;> simp [h2] at h
    rename_i s2 f2
    cases h3 : val c m la b s2 <;> simp [h3] at h
    have := ih _ _ _ _ _ h3
    have := (valK_fwd h2).le
    have := (val_fwd h1).le
    rw [← h.1]; omega
  | @choice a b _ _ iha ihb =>
    intro m la s s' f h
    rw [val_choice] at h
    cases h1 : val c m la a s <;> simp [h1] at h
    · rw [← h.1]; exact iha _ _ _ _ _ h1
    · exact ihb _ _ _ _ _ h
  | @repOnce e _ ih =>
    intro m la s s' f h
    rw [val_repOnce] at h
    split at h
    · cases h1 : val c m la e s <;> simp [h1] at h
      have := ih _ _ _ _ _ h1
      have := (valL_fwd h).le
      omega
    · rw [val_seq] at h
      cases h1 : val c m la e s <;> simp [h1] at h
      rename_i s1 f1
      cases h2 : valK c m la s1 <;> simp [h2] at h
      rename_i s2 f2
      cases h3 : val c m la (.rep e) s2 <;> simp [h3] at h
      have := ih _ _ _ _ _ h1
      have := (valK_fwd h2).le
      have := (val_fwd h3).le
      rw [← h.1]; omega
  | @nodeTag e t _ ih =>
    intro m la s s' f h
    rw [val_nodeTag] at h
    cases h1 : val c m la e s <;> simp [h1] at h
    rw [← h.1]; exact ih _ _ _ _ _ h1
  | @repExact e n hn _ ih =>
    intro m la s s' f h
    rw [val_repExact] at h
    obtain ⟨k, rfl⟩ := Nat.exists_eq_succ_of_ne_zero hn
    rw [List.replicate_succ] at h
    split at h
    · rename_i u hu
      exact seqOfList_cons_progress (ih m la) hu _ _ _ h
    · simp at h
  | @repMin e n hn _ ih =>
    intro m la s s' f h
    rw [val_repMin] at h
    obtain ⟨k, rfl⟩ := Nat.exists_eq_succ_of_ne_zero hn
    rw [List.replicate_succ, List.cons_append] at h
    split at h
    · rename_i u hu
      exact seqOfList_cons_progress (ih m la) hu _ _ _ h
    · simp at h
  | @repMinMax e lo hi hn _ ih =>
    intro m la s s' f h
    rw [val_repMinMax] at h
    cases hi with
    | zero => simp [seqOfList] at h
    | succ k =>
      rw [List.range_succ_eq_map, List.map_cons] at h
      have : (if 0 + 1 ≤ lo then e else Expr.opt e) = e := by
        rw [if_pos (by omega)]
      rw [this] at h
      split at h
      · rename_i u hu
        exact seqOfList_cons_progress (ih m la) hu _ _ _ h
      · simp at h

end PestModel.V
