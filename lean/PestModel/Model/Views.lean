import PestModel.Model.PState
/-
L5 — the token queue as a tree and the iterator views over it:
`pest/src/iterators/{pairs,pair,flat_pairs,tokens,pairs_builder}.rs`.

Views are index windows over the queue exactly as in the code (`start`, `end`, `pairs_count`);
every `queue[i]` that could be out of range / `unreachable!()` / `usize` underflow is `none`.
The renderers (`Display`, alternate `Display`, `Debug`, JSON) are string-producing functions.
-/
namespace PestModel.Views
open PestModel.PS (QTok)
open PestModel.LineCol (Str bLen cLen slice? lineOffsets lineIndexLineCol)

/-- A node of the token tree (what `PairsBuilder` takes and what a parse produces). -/
inductive Tree where
  | node (rule : Nat) (start stop : Nat) (tag : Option Str) (children : List Tree)
  deriving Repr

/-! ### `PairsBuilder::build` / `push_node` -/

mutual
  def pushNode (q : List QTok) : Tree → List QTok
    | .node rule start stop tag children =>
      let startIndex := q.length
      let q1 := pushNodes (q ++ [.start 0 start]) children
      let endIndex := q1.length
      PS.setAt q1 startIndex (.start endIndex start) ++ [.end_ startIndex rule tag stop]
  def pushNodes (q : List QTok) : List Tree → List QTok
    | [] => q
    | t :: ts => pushNodes (pushNode q t) ts
end

def build (forest : List Tree) : List QTok := pushNodes [] forest

/-! ### Reading the tree back from a queue (specification side) -/

/-- Parse tokens `q[i..stop)` into a forest; fuel = number of tokens. `none` if not well formed. -/
def forestOf (q : List QTok) : Nat → Nat → Nat → Option (List Tree)
  | 0, i, stop => if i = stop then some [] else none
  | fuel + 1, i, stop =>
    if i ≥ stop then (if i = stop then some [] else none) else
    match q[i]? with
    | some (.start e p0) =>
      if e ≤ i ∨ e ≥ stop then none else
      match q[e]? with
      | some (.end_ si rule tag p1) =>
        if si ≠ i then none else
        match forestOf q fuel (i + 1) e, forestOf q fuel (e + 1) stop with
        | some kids, some rest => some (.node rule p0 p1 tag kids :: rest)
        | _, _ => none
      | _ => none
    | _ => none

/-! ### Views -/

structure Pairs where
  start : Nat
  stop : Nat
  count : Nat
  deriving Repr, DecidableEq

def posAt (q : List QTok) (i : Nat) : Option Nat :=
  match q[i]? with
  | some (.start _ p) => some p
  | some (.end_ _ _ _ p) => some p
  | none => none

/-- `Pair::pair` / `Pairs::pair`: the `End` index of the `Start` token at `i`. -/
def pairEnd (q : List QTok) (i : Nat) : Option Nat :=
  match q[i]? with
  | some (.start e _) => some e
  | _ => none                                     -- index out of range or `unreachable!()`

/-- `pairs::new`: counts the pairs by hopping over `end_token_index`. Fuel = window size. -/
def countPairs (q : List QTok) : Nat → Nat → Nat → Option Nat
  | 0, cursor, stop => if cursor < stop then none else some 0
  | fuel + 1, cursor, stop =>
    if cursor < stop then
      match pairEnd q cursor with
      | some e => (countPairs q fuel (e + 1) stop).map (· + 1)
      | none => none
    else some 0

def Pairs.new (q : List QTok) (start stop : Nat) : Option Pairs :=
  (countPairs q (stop - start + 1) start stop).map fun c => ⟨start, stop, c⟩

/-- `Pairs::peek`. -/
def Pairs.peek (v : Pairs) : Option Nat := if v.start < v.stop then some v.start else none

/-- `Pairs::next`: `(pair start index, new view)`; outer `none` = panic. -/
def Pairs.next (q : List QTok) (v : Pairs) : Option (Option Nat × Pairs) :=
  if v.start < v.stop then
    match pairEnd q v.start with
    | some e => if v.count = 0 then none else some (some v.start, { v with start := e + 1, count := v.count - 1 })
    | none => none
  else some (none, v)

/-- `Pairs::next_back`. -/
def Pairs.nextBack (q : List QTok) (v : Pairs) : Option (Option Nat × Pairs) :=
  if v.stop ≤ v.start then some (none, v) else
  match q[v.stop - 1]? with
  | some (.end_ si _ _ _) => if v.count = 0 then none else some (some si, { v with stop := si, count := v.count - 1 })
  | _ => none

/-- `Pairs::as_str`. -/
def Pairs.asStr (q : List QTok) (input : Str) (v : Pairs) : Option Str :=
  if v.start < v.stop then
    match posAt q v.start, posAt q (v.stop - 1) with
    | some a, some b => slice? input a b
    | _, _ => none
  else some []

/-- `Pair` observations. -/
def pairRule (q : List QTok) (i : Nat) : Option Nat :=
  match pairEnd q i with
  | some e => match q[e]? with | some (.end_ _ r _ _) => some r | _ => none
  | none => none

def pairTag (q : List QTok) (i : Nat) : Option (Option Str) :=
  match pairEnd q i with
  | some e => match q[e]? with | some (.end_ _ _ t _) => some t | some _ => some none | none => none
  | none => none

def pairSpan (q : List QTok) (i : Nat) : Option (Nat × Nat) :=
  match pairEnd q i with
  | some e => match posAt q i, posAt q e with | some a, some b => some (a, b) | _, _ => none
  | none => none

def pairStr (q : List QTok) (input : Str) (i : Nat) : Option Str :=
  match pairSpan q i with
  | some (a, b) => slice? input a b
  | none => none

/-- `Pair::into_inner`. -/
def pairInner (q : List QTok) (i : Nat) : Option Pairs :=
  match pairEnd q i with
  | some e => Pairs.new q (i + 1) e
  | none => none

/-- `Pairs::single` (after the fix: the window ends one past the `End` token). -/
def pairsSingle (q : List QTok) (i : Nat) : Option Pairs :=
  match pairEnd q i with
  | some e => Pairs.new q i (e + 1)
  | none => none

/-- `Pair::tokens` window. -/
def pairTokens (q : List QTok) (i : Nat) : Option (Nat × Nat) :=
  (pairEnd q i).map fun e => (i, e + 1)

/-! #### `FlatPairs` -/

structure Flat where
  start : Nat
  stop : Nat
  deriving Repr, DecidableEq

def isStart (q : List QTok) (i : Nat) : Option Bool :=
  match q[i]? with
  | some (.start _ _) => some true
  | some _ => some false
  | none => none

/-- `next_start`: `start += 1; while start < end && !is_start(start) { start += 1 }`. -/
def flatAdvance (q : List QTok) (stop : Nat) : Nat → Nat → Option Nat
  | 0, i => some i
  | fuel + 1, i =>
    if i < stop then
      match isStart q i with
      | some true => some i
      | some false => flatAdvance q stop fuel (i + 1)
      | none => none
    else some i

def Flat.next (q : List QTok) (v : Flat) : Option (Option Nat × Flat) :=
  if v.start ≥ v.stop then some (none, v) else
  match flatAdvance q v.stop (v.stop - v.start) (v.start + 1) with
  | some s' => some (some v.start, { v with start := s' })
  | none => none

/-- `next_start_from_end`: `end -= 1; while end >= start && !is_start(end) { end -= 1 }`. -/
def flatRetreat (q : List QTok) (start : Nat) : Nat → Nat → Option Nat
  | 0, _ => none
  | fuel + 1, e =>
    if e ≥ start then
      match isStart q e with
      | some true => some e
      | some false => if e = 0 then none else flatRetreat q start fuel (e - 1)   -- `end -= 1` underflow
      | none => none
    else some e

def Flat.nextBack (q : List QTok) (v : Flat) : Option (Option Nat × Flat) :=
  if v.stop ≤ v.start then some (none, v) else
  match flatRetreat q v.start (v.stop - v.start + 1) (v.stop - 1) with
  | some e => some (some e, { v with stop := e })
  | none => none

/-- `FlatPairs::len` (after the fix): number of `Start` tokens in the window. -/
def Flat.len (q : List QTok) (v : Flat) : Option Nat :=
  (List.range (v.stop - v.start)).foldlM (fun acc k =>
    match isStart q (v.start + k) with
    | some true => some (acc + 1)
    | some false => some acc
    | none => none) 0

/-! #### `Tokens` -/

inductive Tok where
  | start (rule pos : Nat)
  | stop (rule pos : Nat)
  deriving Repr, DecidableEq

def createToken (q : List QTok) (i : Nat) : Option Tok :=
  match q[i]? with
  | some (.start e p) => match q[e]? with | some (.end_ _ r _ _) => some (.start r p) | _ => none
  | some (.end_ _ r _ p) => some (.stop r p)
  | none => none

/-! ### Renderers -/

def natStr (n : Nat) : Str := (toString n).toList

def joinWith (sep : Str) : List Str → Str
  | [] => []
  | [x] => x
  | x :: xs => x ++ sep ++ joinWith sep xs

/-- The pairs of a window as a list of start indices (`self.clone().collect()`); fuel-bounded. -/
def pairsList (q : List QTok) : Nat → Nat → Nat → Option (List Nat)
  | 0, cursor, stop => if cursor < stop then none else some []
  | fuel + 1, cursor, stop =>
    if cursor < stop then
      match pairEnd q cursor with
      | some e => (pairsList q fuel (e + 1) stop).map (cursor :: ·)
      | none => none
    else some []

mutual
  /-- `format!("{pair:#}")`. Fuel = queue length. -/
  def showPairAlt (q : List QTok) : Nat → Nat → Option Str
    | 0, _ => none
    | fuel + 1, i =>
      match pairRule q i, pairSpan q i, pairEnd q i with
      | some r, some (a, b), some e =>
        match pairsList q (q.length + 1) (i + 1) e with
        | some [] => some (natStr r ++ "(".toList ++ natStr a ++ ", ".toList ++ natStr b ++ ")".toList)
        | some kids =>
          match showPairsAltList q fuel kids with
          | some strs =>
            some (natStr r ++ "(".toList ++ natStr a ++ ", ".toList ++ natStr b ++ ", [".toList ++
              joinWith ", ".toList strs ++ "])".toList)
          | none => none
        | none => none
      | _, _, _ => none
  def showPairsAltList (q : List QTok) : Nat → List Nat → Option (List Str)
    | 0, _ => none
    | _ + 1, [] => some []
    | fuel + 1, i :: is =>
      match showPairAlt q fuel i, showPairsAltList q fuel is with
      | some s, some ss => some (s :: ss)
      | _, _ => none
end

/-- Rust `{:?}` of a `str` restricted to the characters the harness uses: `"`, `\`, `\n`, `\r`, `\t`
are escaped, everything else is printed as is. -/
def debugStr (s : Str) : Str :=
  ['"'] ++ s.flatMap (fun c =>
    if c = '"' then "\\\"".toList else if c = '\\' then "\\\\".toList
    else if c = '\n' then "\\n".toList else if c = '\r' then "\\r".toList
    else if c = '\t' then "\\t".toList else [c]) ++ ['"']

mutual
  /-- `format!("{pair:?}")`. -/
  def showPairDebug (q : List QTok) (input : Str) : Nat → Nat → Option Str
    | 0, _ => none
    | fuel + 1, i =>
      match pairRule q i, pairSpan q i, pairEnd q i, pairTag q i, pairStr q input i with
      | some r, some (a, b), some e, some tag, some str =>
        match pairsList q (q.length + 1) (i + 1) e with
        | some kids =>
          match showPairsDebugList q input fuel kids with
          | some strs =>
            some ("Pair { rule: ".toList ++ natStr r ++
              (match tag with | some t => ", node_tag: ".toList ++ debugStr t | none => []) ++
              ", span: Span { str: ".toList ++ debugStr str ++ ", range: ".toList ++ natStr a ++ "..".toList ++
              natStr b ++ " }, inner: [".toList ++ joinWith ", ".toList strs ++ "] }".toList)
          | none => none
        | none => none
      | _, _, _, _, _ => none
  def showPairsDebugList (q : List QTok) (input : Str) : Nat → List Nat → Option (List Str)
    | 0, _ => none
    | _ + 1, [] => some []
    | fuel + 1, i :: is =>
      match showPairDebug q input fuel i, showPairsDebugList q input fuel is with
      | some s, some ss => some (s :: ss)
      | _, _ => none
end

/-- JSON string literal as `serde_json` writes it (restricted to the harness alphabet plus the
mandatory escapes). -/
def jsonStr (s : Str) : Str :=
  ['"'] ++ s.flatMap (fun c =>
    if c = '"' then "\\\"".toList else if c = '\\' then "\\\\".toList
    else if c = '\n' then "\\n".toList else if c = '\r' then "\\r".toList
    else if c = '\t' then "\\t".toList else [c]) ++ ['"']

def indent (n : Nat) : Str := List.replicate (2 * n) ' '

mutual
  /-- `serde_json::to_string_pretty` of a `Pair` at indentation level `lvl`. -/
  def jsonPair (q : List QTok) (input : Str) : Nat → Nat → Nat → Option Str
    | 0, _, _ => none
    | fuel + 1, lvl, i =>
      match pairRule q i, pairSpan q i, pairEnd q i, pairStr q input i with
      | some r, some (a, b), some e, some str =>
        let head := "{\n".toList ++ indent (lvl + 1) ++ "\"pos\": [\n".toList ++
          indent (lvl + 2) ++ natStr a ++ ",\n".toList ++ indent (lvl + 2) ++ natStr b ++ "\n".toList ++
          indent (lvl + 1) ++ "],\n".toList ++
          indent (lvl + 1) ++ "\"rule\": ".toList ++ jsonStr (natStr r) ++ ",\n".toList ++
          indent (lvl + 1) ++ "\"inner\": ".toList
        if i + 1 < e then
          match jsonPairs q input fuel (lvl + 1) (i + 1) e with
          | some inner => some (head ++ inner ++ "\n".toList ++ indent lvl ++ "}".toList)
          | none => none
        else some (head ++ jsonStr str ++ "\n".toList ++ indent lvl ++ "}".toList)
      | _, _, _, _ => none
  /-- … of a `Pairs` window (after the fix: an empty window has `pos` = [0, 0]). -/
  def jsonPairs (q : List QTok) (input : Str) : Nat → Nat → Nat → Nat → Option Str
    | 0, _, _, _ => none
    | fuel + 1, lvl, start, stop =>
      let pos? : Option (Nat × Nat) :=
        if start < stop then
          match posAt q start, posAt q (stop - 1) with
          | some a, some b => some (a, b)
          | _, _ => none
        else some (0, 0)
      match pos?, pairsList q (q.length + 1) start stop with
      | some (a, b), some kids =>
        match jsonPairList q input fuel (lvl + 2) kids with
        | some strs =>
          let body := if strs.isEmpty then "[]".toList else
            "[\n".toList ++ joinWith ",\n".toList (strs.map fun s => indent (lvl + 2) ++ s) ++ "\n".toList ++
              indent (lvl + 1) ++ "]".toList
          some ("{\n".toList ++ indent (lvl + 1) ++ "\"pos\": [\n".toList ++
            indent (lvl + 2) ++ natStr a ++ ",\n".toList ++ indent (lvl + 2) ++ natStr b ++ "\n".toList ++
            indent (lvl + 1) ++ "],\n".toList ++
            indent (lvl + 1) ++ "\"pairs\": ".toList ++ body ++ "\n".toList ++ indent lvl ++ "}".toList)
        | none => none
      | _, _ => none
  def jsonPairList (q : List QTok) (input : Str) : Nat → Nat → List Nat → Option (List Str)
    | 0, _, _ => none
    | _ + 1, _, [] => some []
    | fuel + 1, lvl, i :: is =>
      match jsonPair q input fuel lvl i, jsonPairList q input fuel lvl is with
      | some s, some ss => some (s :: ss)
      | _, _ => none
end

/-! ### Specification: the views in terms of the tree -/

def Tree.rule : Tree → Nat | .node r _ _ _ _ => r
def Tree.start : Tree → Nat | .node _ a _ _ _ => a
def Tree.stop : Tree → Nat | .node _ _ b _ _ => b
def Tree.tag : Tree → Option Str | .node _ _ _ t _ => t
def Tree.children : Tree → List Tree | .node _ _ _ _ c => c

mutual
  /-- number of tokens a tree occupies in the queue. -/
  def Tree.size : Tree → Nat
    | .node _ _ _ _ cs => 2 + sizeList cs
  def sizeList : List Tree → Nat
    | [] => 0
    | t :: ts => t.size + sizeList ts
end

mutual
  /-- pre-order listing (what `flatten` yields). -/
  def Tree.preorder : Tree → List Tree
    | .node r a b t cs => .node r a b t cs :: preorderList cs
  def preorderList : List Tree → List Tree
    | [] => []
    | t :: ts => t.preorder ++ preorderList ts
end

mutual
  /-- the token stream of a tree (what `tokens` yields). -/
  def Tree.toks : Tree → List Tok
    | .node r a b _ cs => .start r a :: (toksList cs ++ [.stop r b])
  def toksList : List Tree → List Tok
    | [] => []
    | t :: ts => t.toks ++ toksList ts
end

end PestModel.Views

namespace PestModel.Views
open PestModel.PS (QTok)
open PestModel.LineCol (Str)

/-! ### Whole-window observations (as the public API exposes them) -/

def bracket (strs : List Str) : Str := "[".toList ++ joinWith ", ".toList strs ++ "]".toList

/-- `Pairs::concat`. -/
def Pairs.concat (q : List QTok) (input : Str) (v : Pairs) : Option Str := do
  let ps ← pairsList q (q.length + 1) v.start v.stop
  let strs ← ps.mapM (pairStr q input)
  pure strs.flatten

/-- `format!("{}", pairs)`. -/
def Pairs.display (q : List QTok) (input : Str) (v : Pairs) : Option Str := do
  let ps ← pairsList q (q.length + 1) v.start v.stop
  let strs ← ps.mapM (pairStr q input)
  pure (bracket strs)

/-- `format!("{:#}", pairs)`. -/
def Pairs.displayAlt (q : List QTok) (v : Pairs) : Option Str := do
  let ps ← pairsList q (q.length + 1) v.start v.stop
  let strs ← showPairsAltList q (4 * q.length + 8) ps
  pure (bracket strs)

/-- `format!("{:?}", pairs)`. -/
def Pairs.debug (q : List QTok) (input : Str) (v : Pairs) : Option Str := do
  let ps ← pairsList q (q.length + 1) v.start v.stop
  let strs ← showPairsDebugList q input (4 * q.length + 8) ps
  pure (bracket strs)

/-- `pairs.to_json()`. -/
def Pairs.json (q : List QTok) (input : Str) (v : Pairs) : Option Str :=
  jsonPairs q input (4 * q.length + 8) 0 v.start v.stop

/-! ### Running interleavings of `next` (true) / `next_back` (false) -/

/-- `Pairs`: each step yields the pair's start index (or `none`) and `len()` afterwards. -/
def pairsRun (q : List QTok) : Pairs → List Bool → Option (List (Option Nat × Nat))
  | _, [] => some []
  | v, front :: ops =>
    match (if front then v.next q else v.nextBack q) with
    | some (r, v') => (pairsRun q v' ops).map ((r, v'.count) :: ·)
    | none => none

def flatRun (q : List QTok) : Flat → List Bool → Option (List (Option Nat × Nat))
  | _, [] => some []
  | v, front :: ops =>
    match (if front then v.next q else v.nextBack q) with
    | some (r, v') =>
      match v'.len q, flatRun q v' ops with
      | some n, some rest => some ((r, n) :: rest)
      | _, _ => none
    | none => none

/-- `Tokens`: window `[a, b)`. -/
def toksRun (q : List QTok) : Nat → Nat → List Bool → Option (List (Option Tok × Nat))
  | _, _, [] => some []
  | a, b, front :: ops =>
    if a ≥ b then (toksRun q a b ops).map ((none, 0) :: ·)
    else if front then
      match createToken q a, toksRun q (a + 1) b ops with
      | some t, some rest => some ((some t, b - (a + 1)) :: rest)
      | _, _ => none
    else
      match createToken q (b - 1), toksRun q a (b - 1) ops with
      | some t, some rest => some ((some t, b - 1 - a) :: rest)
      | _, _ => none

/-! #### `find_tagged` / `find_first_tagged` -/

/-- `flatten()` walked from the front: the start indices of all pairs of the window, in stream order. -/
def flatAll (q : List QTok) : Nat → Flat → Option (List Nat)
  | 0, _ => some []
  | fuel + 1, v =>
    match v.next q with
    | some (some i, v') => (flatAll q fuel v').map (i :: ·)
    | some (none, _) => some []
    | none => none

/-- `Pairs::find_tagged(tag)`: `self.flatten().filter(|p| p.as_node_tag() == Some(tag))`. -/
def Pairs.findTagged (q : List QTok) (v : Pairs) (tag : Str) : Option (List Nat) := do
  let all ← flatAll q (v.stop - v.start + 1) ⟨v.start, v.stop⟩
  let tags ← all.mapM fun i => (pairTag q i).map fun t => (i, t)
  pure ((tags.filter fun p => p.2 = some tag).map (·.1))

/-- `Pairs::find_first_tagged(tag)`: `self.clone().find_tagged(tag).next()`. -/
def Pairs.findFirstTagged (q : List QTok) (v : Pairs) (tag : Str) : Option (Option Nat) :=
  (v.findTagged q tag).map (·.head?)

end PestModel.Views
