//! C03 (also feeds C12/C15 later): random call trees over the real `ParserState` vs `pestmodel prog`,
//! with the combinator contracts evaluated on real snapshots (oracle).
use std::collections::BTreeMap;
use std::num::NonZeroUsize;
use verif_harness::prog::*;
use verif_harness::*;

struct Case { cfg: String, detail: bool, limit: Option<usize>, input: String, main: Prog, env: Vec<Prog> }

fn case_line(c: &Case) -> String {
    let mut s = format!("P {} {} ({}", c.cfg, hexs(&c.input), c.main.show());
    for e in &c.env { s.push(' '); s.push_str(&e.show()); }
    s.push(')');
    s
}
fn parse_case(l: &str) -> Option<Case> {
    let mut it = l.splitn(4, ' ');
    if it.next()? != "P" { return None; }
    let cfg = it.next()?.to_string(); let input = unhexs(it.next()?)?; let rest = it.next()?;
    let (mut detail, mut limit) = (false, None);
    for item in cfg.split(',') { match item.as_bytes().first()? { b'm' => {} b'd' => detail = &item[1..] == "1", b'l' => limit = if &item[1..] == "_" { None } else { Some(item[1..].parse().ok()?) }, _ => return None } }
    let top = sexp_parse(rest)?;
    if top.len() != 1 { return None; }
    let v = if let SExp::List(v) = &top[0] { v } else { return None };
    let mut ps = v.iter().map(prog_of).collect::<Option<Vec<_>>>()?;
    if ps.is_empty() { return None; }
    let main = ps.remove(0);
    Some(Case { cfg, detail, limit, input, main, env: ps })
}

fn eval(c: &Case, stats: &mut BTreeMap<String, u64>) -> (String, String) {
    pest::set_call_limit(c.limit.and_then(NonZeroUsize::new));
    pest::set_error_detail(c.detail);
    let input: &str = &c.input;
    let obs = Obs::new(input);
    let r = catch(|| {
        let s = pest::ParserState::<R>::new(input);
        match run(&c.main, &c.env, s, &obs) { Ok(s) => format!("ok {}", s.verif_snapshot()), Err(s) => format!("err {}", s.verif_snapshot()) }
    });
    pest::set_call_limit(None);
    pest::set_error_detail(false);
    for (k, v) in obs.counts.borrow().iter() { *stats.entry(k.to_string()).or_default() += v; }
    let imp = r.unwrap_or_else(|_| "panic".into());
    *stats.entry(format!("result_{}", imp.split(' ').next().unwrap())).or_default() += 1;
    // C04, first sentence: a successful parse yields a well-formed token stream. The same program is run once more through
    // pest::state (no observers), and the Pairs it returns are walked in full.
    let wf = if imp.starts_with("ok") {
        pest::set_call_limit(c.limit.and_then(NonZeroUsize::new));
        let r = catch(|| match pest::state::<R, _>(input, |s| verif_harness::prog::run_fast(&c.main, &c.env, s)) {
            Ok(pairs) => { let n_tok = pairs.clone().tokens().count(); let n_flat = pairs.clone().flatten().count();
                if n_tok != 2 * n_flat { return Some(format!("{} tokens for {} pairs", n_tok, n_flat)); }
                walk_pairs(pairs, 0, input.len(), input) }
            Err(_) => None });
        pest::set_call_limit(None);
        match r { Ok(None) => None, Ok(Some(m)) => Some(m), Err(m) => Some(format!("walking the pairs of a successful parse panicked: {}", m)) }
    } else { None };
    let fails = obs.fails.borrow();
    (imp, if let Some(m) = wf { format!("FAIL token stream of a successful parse is not a well-formed tree: {}", m) } else if fails.is_empty() { "ok".into() } else { format!("FAIL {}", fails[0]) })
}

/// every pair lies inside [lo, hi] on character boundaries, siblings are ordered and do not overlap, children lie inside
fn walk_pairs(pairs: pest::iterators::Pairs<'_, R>, lo: usize, hi: usize, input: &str) -> Option<String> {
    let mut at = lo;
    for p in pairs {
        let sp = p.as_span();
        if sp.start() < at || sp.end() < sp.start() || sp.end() > hi || !input.is_char_boundary(sp.start()) || !input.is_char_boundary(sp.end()) {
            return Some(format!("pair {:?} at {}..{} outside {}..{} or before its sibling's end {}", p.as_rule(), sp.start(), sp.end(), lo, hi, at)); }
        if p.as_str() != &input[sp.start()..sp.end()] { return Some(format!("as_str of {:?} is not its span", p.as_rule())); }
        at = sp.end();
        if let Some(m) = walk_pairs(p.into_inner(), sp.start(), sp.end(), input) { return Some(m); }
    }
    None
}

// ---------------------------------------------------------------- generator
const LITS: &[&str] = &["a", "b", "ab", "ba", "é", "aé", "嗨", "c", "a", "b", "é", "\u{ffff}", "\u{f000}b", "\u{10ffff}", "\u{7ff}a", "\u{800}"];
struct Gen { rng: Rng, nenv: usize, calls_left: usize }
impl Gen {
    fn lit(&mut self) -> String { self.rng.pick(LITS).to_string() }
    fn consuming(&mut self) -> Prog {
        match self.rng.below(8) {
            0 | 1 | 2 => Prog::Str(self.lit()),
            3 => Prog::Ins(self.rng.pick(&["A", "aB", "É", "b"]).to_string()),
            4 => { let (a, b) = *self.rng.pick(&[('a', 'b'), ('a', 'z'), ('b', 'é'), ('\u{80}', '\u{ffff}')]); Prog::Rng(a, b) }
            5 => Prog::Cby(self.rng.pick(&[vec![(0u32, 0x10ffffu32)], vec![(97, 97), (233, 233)], vec![(98, 122)], vec![(0x55e8, 0x55e8), (97, 98)]]).clone()),
            6 => Prog::Skip(1),
            _ => Prog::Str(self.lit()),
        }
    }
    fn terminal(&mut self) -> Prog {
        match self.rng.below(26) {
            0..=6 => self.consuming(),
            7 => Prog::Str(String::new()),
            8 => Prog::Skip(self.rng.below(3) as usize),
            9 | 10 => { let n = self.rng.below(5) as usize; let mut v = vec![]; for _ in 0..n { v.push(if self.rng.chance(1, 7) { String::new() } else { self.lit() }); } Prog::Until(v) }
            11 => Prog::Soi, 12 => Prog::Eoi,
            13 => Prog::Lit(self.lit()),
            14 => Prog::MPeek, 15 => Prog::MPop, 16 => Prog::Drop,
            17 | 18 => { let a = self.rng.below(7) as i32 - 3; let b = if self.rng.chance(1, 3) { None } else { Some(self.rng.below(7) as i32 - 3) }; Prog::Slice(a, b, self.rng.chance(1, 2)) }
            19 => Prog::Tag(self.rng.pick(&["t", "u"]).to_string()),
            20 => if self.rng.chance(1, 3) { Prog::Peek } else { Prog::MPeek },
            21 => if self.rng.chance(1, 3) { Prog::Pop } else { Prog::Drop },
            22 => Prog::Ok, 23 => Prog::Fail,
            _ => self.consuming(),
        }
    }
    /// progress-or-fail programs (safe as repeat bodies)
    fn progressing(&mut self, d: usize) -> Prog {
        if d == 0 { return self.consuming(); }
        let b = |p| Box::new(p);
        match self.rng.below(10) {
            0 | 1 => self.consuming(),
            2 | 3 => { let x = self.progressing(d - 1); let y = self.any(d - 1); Prog::Seq(b(Prog::And(b(x), b(y)))) }
            4 => { let x = self.progressing(d - 1); Prog::Rule(self.rng.below(4) as u16 + 1, b(x)) }
            5 => { let x = self.progressing(d - 1); let y = self.progressing(d - 1); Prog::Or(b(x), b(y)) }
            6 => { let x = self.progressing(d - 1); Prog::At(*self.rng.pick(&['A', 'C', 'N']), b(x)) }
            7 => { let x = self.progressing(d - 1); Prog::Push(b(x)) }
            8 => { let x = self.progressing(d - 1); Prog::Roe(b(x)) }
            _ => { let x = self.any(d - 1); let y = self.progressing(d - 1); Prog::Seq(b(Prog::And(b(Prog::La(self.rng.chance(1, 2), b(x))), b(y)))) }
        }
    }
    fn any(&mut self, d: usize) -> Prog {
        if d == 0 { return self.terminal(); }
        let b = |p| Box::new(p);
        match self.rng.below(22) {
            0 | 1 => self.terminal(),
            2 | 3 | 4 => { let x = self.any(d - 1); let y = self.any(d - 1); Prog::Seq(b(Prog::And(b(x), b(y)))) }
            5 => { let x = self.any(d - 1); let y = self.any(d - 1); let z = self.any(d - 1); Prog::Seq(b(Prog::And(b(Prog::And(b(x), b(y))), b(z)))) }
            6 => { let x = self.any(d - 1); Prog::Opt(b(x)) }
            7 | 8 => { let x = self.progressing(d - 1); Prog::Rep(b(x)) }
            9 | 10 => { let x = self.any(d - 1); Prog::La(self.rng.chance(1, 2), b(x)) }
            11 => { let x = self.any(d - 1); Prog::At(*self.rng.pick(&['A', 'C', 'N']), b(x)) }
            12 | 13 => { let x = self.any(d - 1); Prog::Rule(self.rng.below(4) as u16 + 1, b(x)) }
            14 | 15 => { let x = self.any(d - 1); Prog::Push(b(x)) }
            16 => { let x = self.any(d - 1); Prog::Roe(b(x)) }
            17 | 18 => { let x = self.any(d - 1); let y = self.any(d - 1); Prog::Or(b(x), b(y)) }
            19 => { let x = self.any(d - 1); let y = self.any(d - 1); Prog::And(b(x), b(y)) }
            20 if self.nenv > 0 && self.calls_left > 0 => { self.calls_left -= 1; Prog::Call(self.rng.below(self.nenv as u64) as usize) }
            _ => self.terminal(),
        }
    }
}

impl Gen {
    /// stack-heavy programs: pushes, drops and pops under nested snapshots (sequence / optional / look-ahead /
    /// restore_on_err), so that pops reach below the enclosing snapshot's baseline before an outer failure
    fn stack_term(&mut self) -> Prog {
        match self.rng.below(12) {
            0..=3 => Prog::Lit(self.lit()), 4 | 5 => Prog::Drop, 6 => Prog::Pop, 7 => Prog::MPop,
            8 => if self.rng.chance(1, 2) { Prog::Peek } else { Prog::MPeek }, 9 => Prog::Str(self.lit()), 10 => Prog::Fail, _ => Prog::Ok,
        }
    }
    fn stack_any(&mut self, d: usize) -> Prog {
        if d == 0 { return self.stack_term(); }
        let b = |p| Box::new(p);
        match self.rng.below(14) {
            0 | 1 => self.stack_term(),
            2..=4 => { let x = self.stack_any(d - 1); let y = self.stack_any(d - 1); Prog::Seq(b(Prog::And(b(x), b(y)))) }
            5 => { let x = self.stack_any(d - 1); let y = self.stack_any(d - 1); let z = self.stack_any(d - 1); Prog::Seq(b(Prog::And(b(Prog::And(b(x), b(y))), b(z)))) }
            6 | 7 => { let x = self.stack_any(d - 1); Prog::Opt(b(x)) }
            8 => { let x = self.stack_any(d - 1); Prog::La(self.rng.chance(1, 2), b(x)) }
            9 => { let x = self.stack_any(d - 1); Prog::Roe(b(x)) }
            10 => { let x = self.stack_any(d - 1); let y = self.stack_any(d - 1); Prog::Or(b(x), b(y)) }
            11 => { let x = self.stack_any(d - 1); let y = self.stack_any(d - 1); Prog::And(b(x), b(y)) }
            12 => { let x = self.consuming(); Prog::Push(b(x)) }
            _ => { let x = self.stack_any(d - 1); Prog::Rule(self.rng.below(4) as u16 + 1, b(x)) }
        }
    }
}

fn gen_input(rng: &mut Rng, maxlen: usize) -> String {
    let n = rng.range(0, maxlen);
    let mut s = String::new();
    // incl. characters whose low byte is an ASCII letter / control code (Ł = U+0141, ᵡ = U+1D61, 一 = U+4E00)
    // and the first / last characters of UTF-8 leading-byte classes (U+7FF, U+800, U+F000, U+FFFF, U+10FFFF)
    for _ in 0..n { s.push_str(*rng.pick(&["a", "b", "a", "b", "é", "嗨", "c", "A", "B", "Ł", "ᵡ", "一", "a", "b", "\u{7ff}", "\u{800}", "\u{f000}", "\u{ffff}", "\u{10ffff}", "\u{fffd}"][..])); }
    s
}

fn main() {
    quiet_panics();
    let mut out = Out::new();
    let mut stats: BTreeMap<String, u64> = BTreeMap::new();
    let memchr = cfg!(feature = "memchr");
    match cli() {
        Cmd::Run { ops, out: dir } => {
            for l in &ops { match parse_case(l) { Some(c) => { let (i, v) = eval(&c, &mut stats); out.push(l.clone(), i, v); } None => out.push(l.clone(), "bad-op".into(), "ok".into()) } }
            out.write(&dir, "{}");
        }
        Cmd::Gen { thorough, seed, out: dir } => {
            let n = if thorough { 120000 } else { 20000 };
            let maxd = if thorough { 9 } else { 6 };
            let mut rng = Rng::new(seed ^ if memchr { 0 } else { 0x5555 });
            let mut distinct = std::collections::HashSet::new();
            for i in 0..n {
                let nenv = rng.below(3) as usize;
                let mut g = Gen { rng: rng.fork(), nenv, calls_left: 2 };
                let d = g.rng.range(1, maxd);
                let main = if i % 5 == 2 { let dd = g.rng.range(2, maxd.min(7)); g.stack_any(dd) } else { g.any(d) };
                let mut env = vec![];
                for _ in 0..nenv { g.calls_left = 2; let head = g.consuming(); let dd = g.rng.range(0, 3); let rest = g.any(dd); env.push(Prog::Seq(Box::new(Prog::And(Box::new(head), Box::new(rest))))); }
                let detail = i % 4 == 1;
                let limit = if i % 10 == 3 { Some(rng.range(1, 12)) } else { None };
                let input = gen_input(&mut rng, 8);
                let cfg = format!("m{},d{},l{}", memchr as u8, detail as u8, limit.map(|l| l.to_string()).unwrap_or("_".into()));
                let c = Case { cfg, detail, limit, input, main, env };
                let l = case_line(&c);
                let (imp, v) = eval(&c, &mut stats);
                // non-trivial: consumed input or emitted tokens or touched the stack
                if imp.contains("q=[S") || !imp.contains("pos=0 ") || !imp.contains("st=[]") { distinct.insert(l.clone()); }
                out.push(l, imp, v);
            }
            let samples: Vec<String> = out.ops.iter().step_by((out.ops.len() / 5).max(1)).take(5).cloned().collect();
            let stats_s = format!("{{\"evaluations\":{},\"distinct_nontrivial\":{},\"memchr\":{},\"max_depth\":{},\"observed\":{:?},\"samples\":{:?}}}", out.ops.len(), distinct.len(), memchr, maxd, stats, samples);
            out.write(&dir, &stats_s);
        }
    }
}
