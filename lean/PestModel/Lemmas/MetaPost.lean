import PestModel.Lemmas.RefHoare
import PestModel.Lemmas.ReaderShape
/-!
C09, part A: the pairs that the reference denotation of the regenerated meta-grammar (`Gen.Meta.rules`)
produces have the shape `GrammarForest` — by the Hoare rule of `RefHoare`: one postcondition per rule of
`grammar.pest` (`metaPost`), each rule body checked once (`metaPostOK`).
-/
namespace PestModel.MetaPost
open PestModel.G PestModel.Ref PestModel.ReaderShape
open PestModel.ReaderFull (kind strOf nameOf metaNames noUni)
open PestModel.Views (Tree)
open PestModel.LineCol (Str bLen)
open PestModel.PS (Atomicity CharSet)

def metaCtx (text : Str) : Ctx := { rules := PestModel.Gen.Meta.rules, input := text, extras := false, uni := noUni }

/-- type of the rule of that name in `grammar.pest` (independent of the text). -/
def rty (name : String) : Option RuleType := ((metaCtx []).rule? name).map (·.2.ty)

theorem rule?_indep (text : Str) (name : String) : (metaCtx text).rule? name = (metaCtx []).rule? name := rfl

/-! ### what each rule guarantees -/

/-- rules that never produce a pair. -/
def Quiet (name : String) : Prop :=
  name = "WHITESPACE" ∨ name = "COMMENT" ∨ name = "newline" ∨ name = "line_comment" ∨ name = "block_comment" ∨
  name = "space" ∨ name = "alpha" ∨ name = "alpha_num"

instance (name : String) : Decidable (Quiet name) := by unfold Quiet; infer_instance

/-- facts about the consumed word (any mode). -/
def WordFact (name : String) (w : Str) : Prop :=
  (name = "quote" → w = ['"']) ∧ (name = "single_quote" → w = ['\'']) ∧
  (name = "tag_id" → ∃ body, w = '#' :: body) ∧
  (name = "string" → ∃ body, w = '"' :: body ++ ['"']) ∧
  (name = "character" → ∃ body, w = '\'' :: body ++ ['\''])

def PushKids (text : Str) (cs : List Tree) : Prop :=
  ∃ o e c, cs = [o, e, c] ∧ kind e = "expression" ∧ ExprKids text e.children

def RuleKids (text : Str) (cs : List Tree) : Prop :=
  (∃ c rest, cs = c :: rest ∧ kind c = "line_doc") ∨
  (∃ id asg mods ob e cb, cs = id :: asg :: (mods ++ [ob, e, cb]) ∧ kind id = "identifier" ∧ HasStr text id ∧
    (mods = [] ∨ ∃ m, mods = [m] ∧ IsModifier m) ∧ kind ob = "opening_brace" ∧
    kind e = "expression" ∧ ExprKids text e.children)

/-- the inner pairs of an emitted pair, by rule (non-atomic context, outside predicates). -/
def Kids (text : Str) (name : String) (cs : List Tree) : Prop :=
  (name = "grammar_rule" → RuleKids text cs) ∧
  (name = "expression" → ExprKids text cs) ∧
  (name = "term" → UnArgs text cs) ∧
  (name = "_push" → PushKids text cs) ∧
  (name = "_push_literal" → ∃ o s c, cs = [o, s, c] ∧ QuotedT text '"' s) ∧
  (name = "peek_slice" → PeekKids text cs) ∧
  (name = "insensitive_string" → ∃ s, cs = [s] ∧ QuotedT text '"' s) ∧
  (name = "range" → ∃ a op b, cs = [a, op, b] ∧ QuotedT text '\'' a ∧ QuotedT text '\'' b) ∧
  (name = "repeat_exact" → ∃ o n c, cs = [o, n, c] ∧ HasStr text n) ∧
  (name = "repeat_min" → ∃ o n cm c, cs = [o, n, cm, c] ∧ HasStr text n) ∧
  (name = "repeat_max" → ∃ o cm n c, cs = [o, cm, n, c] ∧ HasStr text n) ∧
  (name = "repeat_min_max" → ∃ o a cm b c, cs = [o, a, cm, b, c] ∧ HasStr text a ∧ HasStr text b)

def PushT (text : Str) (t : Tree) : Prop := kind t = "_push" ∧ PushKids text t.children

/-- the forest of a `node`. -/
def NodeF (text : Str) (F : List Tree) : Prop :=
  (∃ o e c, F = [o, e, c] ∧ kind o = "opening_paren" ∧ kind e = "expression" ∧ ExprKids text e.children ∧
    kind c = "closing_paren") ∨
  (∃ t, F = [t] ∧ (PushT text t ∨ LeafT text t))

/-- the forest of a silent rule, by rule (non-atomic context, outside predicates). -/
def Forest (text : Str) (name : String) (F : List Tree) : Prop :=
  (name = "grammar_rules" → GrammarForest text F) ∧
  (name = "modifier" → ∃ t, F = [t] ∧ IsModifier t) ∧
  (name = "node_tag" → ∃ g asg, F = [g, asg] ∧ TagT text g ∧ kind asg = "assignment_operator") ∧
  (name = "node" → NodeF text F) ∧
  (name = "terminal" → ∃ t, F = [t] ∧ (PushT text t ∨ LeafT text t)) ∧
  (name = "prefix_operator" → ∃ t, F = [t] ∧ IsPrefixOp t) ∧
  (name = "infix_operator" → ∃ t, F = [t] ∧ IsInfix t) ∧
  (name = "postfix_operator" → ∃ t, F = [t] ∧ PostfixT text t)

/-- **The postcondition of every rule of the meta-grammar.** -/
def metaPost (text : Str) : Post := fun m la name a w F =>
  (Quiet name → F = []) ∧ WordFact name w ∧ (rty name = none → name ≠ "EOI" → F = []) ∧
  (m = .nonAtomic → la = false →
    match rty name with
    | some .silent => Forest text name F
    | some _ => ∃ t, F = [t] ∧ kind t = name ∧ strOf text t = some w ∧ Kids text name t.children
    | none => name = "EOI" → ∃ t, F = [t] ∧ kind t = "EOI")

/-! ### generic consequences -/

theorem skW_nil {text : Str} {m : Atomicity} {la : Bool} {a : Nat} {w : Str} {F : List Tree}
    (h : SkW (metaPost text) m la a w F) : F = [] := by
  unfold SkW at h
  split at h
  · induction h with
    | nil => rfl
    | cons hr _ ih =>
      rcases hr with hr | hr
      · rw [hr.1 (by simp [Quiet]), ih]; rfl
      · rw [hr.1 (by simp [Quiet]), ih]; rfl
  · exact h.2

/-- every step of a repetition contributes a forest whose trees satisfy `Q`. -/
theorem starW_all {R : Nat → Str → List Tree → Prop} {Q : Tree → Prop}
    (hR : ∀ a w f, R a w f → ∀ t ∈ f, Q t) {a : Nat} {w : Str} {F : List Tree} (h : StarW R a w F) : ∀ t ∈ F, Q t := by
  induction h with
  | nil => intro t ht; simp at ht
  | cons hr _ ih =>
    intro t ht
    rcases List.mem_append.1 ht with ht | ht
    · exact hR _ _ _ hr t ht
    · exact ih t ht

theorem starW_nil {R : Nat → Str → List Tree → Prop} (hR : ∀ a w f, R a w f → f = [])
    {a : Nat} {w : Str} {F : List Tree} (h : StarW R a w F) : F = [] := by
  induction h with
  | nil => rfl
  | cons hr _ ih => rw [hR _ _ _ hr, ih]; rfl

/-- the word of a repetition of one-character steps... is just some word: nothing to say. The forest of a
repetition whose body steps each produce one of a list of forests. -/
theorem starW_lists {R : Nat → Str → List Tree → Prop} {S : List Tree → Prop}
    (hR : ∀ a w f, R a w f → f = [] ∨ S f) {a : Nat} {w : Str} {F : List Tree} (h : StarW R a w F) :
    ∃ fs : List (List Tree), F = fs.flatten ∧ ∀ f ∈ fs, S f := by
  induction h with
  | nil => exact ⟨[], rfl, by simp⟩
  | cons hr _ ih =>
    obtain ⟨fs, hfs, hS⟩ := ih
    rcases hR _ _ _ hr with h0 | hs
    · exact ⟨fs, by rw [h0, hfs]; rfl, hS⟩
    · exact ⟨_ :: fs, by rw [hfs]; rfl, by intro f hf; rcases List.mem_cons.1 hf with rfl | hf; exact hs; exact hS f hf⟩

theorem nameOf_of_rule? {text : Str} {name : String} {id : Nat} {r : Rule}
    (h : (metaCtx text).rule? name = some (id, r)) : nameOf id = name ∧ r.name = name := by
  have key : ∀ (rs : List Rule) (i : Nat), Ctx.rule?.go name rs i = some (id, r) →
      ∃ k, id = i + k ∧ (rs.map (·.name))[k]? = some name ∧ r.name = name := by
    intro rs
    induction rs with
    | nil => intro i h; simp [Ctx.rule?.go] at h
    | cons x xs ih =>
      intro i h
      simp only [Ctx.rule?.go] at h
      split at h
      · rename_i hx
        simp only [Option.some.injEq, Prod.mk.injEq] at h
        exact ⟨0, by omega, by simp [hx], by rw [← h.2]; exact hx⟩
      · obtain ⟨k, hk, hm, hr⟩ := ih (i + 1) h
        exact ⟨k + 1, by omega, by simpa using hm, hr⟩
  obtain ⟨k, hk, hm, hr⟩ := key _ 0 h
  refine ⟨?_, hr⟩
  simp only [Nat.zero_add] at hk
  subst hk
  unfold nameOf metaNames
  simp only [metaCtx] at hm
  rw [hm]; rfl

/-! ### sequencing under `metaPost` -/

theorem seq_inv {text : Str} {m : Atomicity} {la : Bool} {x y : Expr} {a : Nat} {w : Str} {F : List Tree}
    (h : OkW (metaPost text) m la (.seq x y) a w F) :
    ∃ w1 f1 w2 w3 f3 a', OkW (metaPost text) m la x a w1 f1 ∧ OkW (metaPost text) m la y a' w3 f3 ∧
      w = w1 ++ w2 ++ w3 ∧ F = f1 ++ f3 ∧ (m ≠ .nonAtomic → w2 = []) := by
  simp only [OkW] at h
  obtain ⟨w1, f1, w2, f2, w3, f3, h1, h2, h3, rfl, rfl⟩ := h
  have := skW_nil h2
  subst this
  refine ⟨w1, f1, w2, w3, f3, _, h1, h3, rfl, by simp, ?_⟩
  intro hm
  unfold SkW at h2
  rw [if_neg hm] at h2
  exact h2.1

/-- the steps of a repetition under `metaPost`: the body, or a skip that contributes nothing. -/
theorem rep_inv {text : Str} {m : Atomicity} {la : Bool} {e : Expr} {a : Nat} {w : Str} {F : List Tree}
    {S : List Tree → Prop} (hS : ∀ a w f, OkW (metaPost text) m la e a w f → S f)
    (h : StarW (RK (metaPost text) m la e) a w F) : ∃ fs : List (List Tree), F = fs.flatten ∧ ∀ f ∈ fs, S f :=
  starW_lists (fun a w f hr => by
    rcases hr with hr | hr
    · exact Or.inr (hS a w f hr)
    · exact Or.inl (skW_nil hr)) h

/-! ### calls -/

/-- a call of a non-silent rule in the non-atomic context: one pair of that kind spanning the consumed word. -/
theorem call_node {text : Str} {n : String} {a : Nat} {w : Str} {F : List Tree}
    (h : OkW (metaPost text) .nonAtomic false (.ident n) a w F) {ty : RuleType} (hty : rty n = some ty)
    (hs : ty ≠ .silent) :
    ∃ t, F = [t] ∧ kind t = n ∧ strOf text t = some w ∧ Kids text n t.children ∧ WordFact n w := by
  simp only [OkW] at h
  have := h.2.2.2 rfl rfl
  rw [hty] at this
  obtain ⟨t, h1, h2, h3, h4⟩ : ∃ t, F = [t] ∧ kind t = n ∧ strOf text t = some w ∧ Kids text n t.children := by
    cases ty <;> first | exact absurd rfl hs | exact this
  exact ⟨t, h1, h2, h3, h4, h.2.1⟩

theorem call_silent {text : Str} {n : String} {a : Nat} {w : Str} {F : List Tree}
    (h : OkW (metaPost text) .nonAtomic false (.ident n) a w F) (hty : rty n = some .silent) : Forest text n F := by
  simp only [OkW] at h
  have := h.2.2.2 rfl rfl
  rw [hty] at this
  exact this

/-! ### expressions that produce no pair in any mode -/

def quietE : Expr → Bool
  | .str _ | .insens _ | .range _ _ | .posPred _ | .negPred _ | .pushLiteral _ | .skip _ | .peekSlice _ _ => true
  | .ident n => decide (Quiet n) || (decide (rty n = none) && decide (n ≠ "EOI"))
  | .seq a b | .choice a b => quietE a && quietE b
  | .opt e | .rep e | .repOnce e | .repExact e _ | .repMin e _ | .repMax e _ | .repMinMax e _ _ | .push e => quietE e
  | .nodeTag _ _ => false

theorem quietE_nil {text : Str} {m : Atomicity} {la : Bool} : ∀ (e : Expr), quietE e = true →
    ∀ a w F, OkW (metaPost text) m la e a w F → F = []
  | .str _, _, _, _, _, h => by simp only [OkW] at h; exact h.2
  | .insens _, _, _, _, _, h => by simp only [OkW] at h; exact h.2
  | .range _ _, _, _, _, _, h => by simp only [OkW] at h; obtain ⟨_, _, _, _, h⟩ := h; exact h
  | .posPred _, _, _, _, _, h => by simp only [OkW] at h; exact h.2
  | .negPred _, _, _, _, _, h => by simp only [OkW] at h; exact h.2
  | .pushLiteral _, _, _, _, _, h => by simp only [OkW] at h; exact h.2
  | .skip _, _, _, _, _, h => by simpa only [OkW] using h
  | .peekSlice _ _, _, _, _, _, h => by simpa only [OkW] using h
  | .ident n, hq, _, _, _, h => by
    simp only [OkW] at h
    simp only [quietE, Bool.or_eq_true, Bool.and_eq_true, decide_eq_true_eq] at hq
    rcases hq with hq | ⟨h1, h2⟩
    · exact h.1 hq
    · exact h.2.2.1 h1 h2
  | .seq x y, hq, a, w, F, h => by
    simp only [quietE, Bool.and_eq_true] at hq
    obtain ⟨w1, f1, w2, w3, f3, a', h1, h3, _, rfl, _⟩ := seq_inv h
    rw [quietE_nil x hq.1 _ _ _ h1, quietE_nil y hq.2 _ _ _ h3]; rfl
  | .choice x y, hq, a, w, F, h => by
    simp only [quietE, Bool.and_eq_true] at hq
    simp only [OkW] at h
    rcases h with h | h
    · exact quietE_nil x hq.1 _ _ _ h
    · exact quietE_nil y hq.2 _ _ _ h
  | .opt e, hq, a, w, F, h => by
    simp only [quietE] at hq
    simp only [OkW] at h
    rcases h with h | h
    · exact quietE_nil e hq _ _ _ h
    · exact h.2
  | .rep e, hq, a, w, F, h => by
    simp only [quietE] at hq; simp only [OkW] at h
    exact starW_nil (fun a w f hr => by rcases hr with hr | hr; exact quietE_nil e hq _ _ _ hr; exact skW_nil hr) h
  | .repOnce e, hq, a, w, F, h => by
    simp only [quietE] at hq; simp only [OkW] at h
    exact starW_nil (fun a w f hr => by rcases hr with hr | hr; exact quietE_nil e hq _ _ _ hr; exact skW_nil hr) h
  | .repExact e _, hq, a, w, F, h => by
    simp only [quietE] at hq; simp only [OkW] at h
    exact starW_nil (fun a w f hr => by rcases hr with hr | hr; exact quietE_nil e hq _ _ _ hr; exact skW_nil hr) h
  | .repMin e _, hq, a, w, F, h => by
    simp only [quietE] at hq; simp only [OkW] at h
    exact starW_nil (fun a w f hr => by rcases hr with hr | hr; exact quietE_nil e hq _ _ _ hr; exact skW_nil hr) h
  | .repMax e _, hq, a, w, F, h => by
    simp only [quietE] at hq; simp only [OkW] at h
    exact starW_nil (fun a w f hr => by rcases hr with hr | hr; exact quietE_nil e hq _ _ _ hr; exact skW_nil hr) h
  | .repMinMax e _ _, hq, a, w, F, h => by
    simp only [quietE] at hq; simp only [OkW] at h
    exact starW_nil (fun a w f hr => by rcases hr with hr | hr; exact quietE_nil e hq _ _ _ hr; exact skW_nil hr) h
  | .push e, hq, a, w, F, h => by
    simp only [quietE] at hq; simp only [OkW] at h
    exact quietE_nil e hq _ _ _ h
  | .nodeTag _ _, hq, _, _, _, _ => by simp [quietE] at hq

/-- body of the rule of that name in `grammar.pest`. -/
def bodyOf (name : String) : Expr := (((metaCtx []).rule? name).map (·.2.expr)).getD (.str [])

/-- every quiet rule's body is a quiet expression (evaluated on the regenerated grammar). -/
theorem quiet_bodies : ∀ n ∈ ["WHITESPACE", "COMMENT", "newline", "line_comment", "block_comment", "space", "alpha",
    "alpha_num"], quietE (bodyOf n) = true ∧ rty n = some .silent := by decide


end PestModel.MetaPost
