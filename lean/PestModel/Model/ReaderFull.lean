import PestModel.Model.Reader
import PestModel.Model.Validator
/-
L8 (whole) — the grammar reader `pest_meta::parser`: `consume_rules` applied to the pairs that
`parse(Rule::grammar_rules, text)` returns.

* the pairs are the forest of `Ref.meaning Gen.Meta.rules … "grammar_rules" text` (rule index = position
  in `Gen.Meta.rules`, inspected by rule NAME through `nameOf`, so that a regenerated meta-grammar with
  another rule order keeps working);
* `consumeRulesWithSpans` is `consume_rules_with_spans` followed by `convert_rule` (the spans only
  feed error messages, they are not modelled);
* `consumeRules` adds what `consume_rules` adds: `validator::validate_ast` must report nothing;
* `Err(…)` and every `unwrap`/`unreachable!`/slice panic are `none` (the panics cannot fire on pairs
  produced by the meta-grammar).

`extras` is the cargo feature `grammar-extras`: without it `#tag =` is read and dropped and
`PUSH_LITERAL(…)` is an error.

No `partial def`: the two mutually recursive functions `consumeExpr`/`unaries` recurse on fuel; the
size of the forest (`Views.sizeList`) is ample (every call consumes a pair or descends into one).
-/
namespace PestModel.ReaderFull
open PestModel.G PestModel.Reader
open PestModel.Views (Tree)
open PestModel.LineCol (Str)

/-! ### pairs: rule names and text -/

def metaNames : List String := PestModel.Gen.Meta.rules.map (·.name)
def nameOf (r : Nat) : String := metaNames[r]?.getD (if r = metaNames.length then "EOI" else "?")

/-- `pair.as_rule()`, by name. -/
def kind (t : Tree) : String := nameOf t.rule

/-- `pair.as_str()`. -/
def strOf (text : Str) (t : Tree) : Option Str := PestModel.LineCol.slice? text t.start t.stop

/-- `s[1..s.len() - 1]` (byte indices: both ends must be one-byte characters). -/
def stripEnds (s : Str) : Option Str :=
  match s with
  | [] => none
  | c :: cs =>
    match cs.getLast? with
    | none => none
    | some l => if c.utf8Size = 1 ∧ l.utf8Size = 1 then some cs.dropLast else none

/-- `s[1..]`. -/
def dropFirstByte (s : Str) : Option Str :=
  match s with
  | [] => none
  | c :: cs => if c.utf8Size = 1 then some cs else none

/-- `unescape(pair.as_str())` then the quotes are cut off. -/
def literal (text : Str) (t : Tree) : Option Str :=
  match strOf text t with
  | some s => match unescape s with
    | some u => stripEnds u
    | none => none
  | none => none

def theChar (s : Str) : Option Char := match s with | [c] => some c | _ => none

/-- `number.as_str().parse::<u32>()`. -/
def numberOf (text : Str) (t : Tree) : Option Nat :=
  match strOf text t with | some s => parseU32 s | none => none

/-- `integer.as_str().parse::<i32>()`. -/
def integerOf (text : Str) (t : Tree) : Option Int :=
  match strOf text t with | some s => parseI32 s | none => none

/-! ### `get_node_tag` -/

/-- the pair to dispatch on, the pairs after it, and the tag name (`#` cut off) when the first pair is
followed by an `assignment_operator`. -/
def getNodeTag (text : Str) : List Tree → Option (Tree × List Tree × Option Str)
  | [] => none
  | p :: rest =>
    match rest with
    | q :: rest1 =>
      if kind q = "assignment_operator" then
        match rest1 with
        | r :: rest2 =>
          match strOf text p with
          | some s => match dropFirstByte s with
            | some tag => some (r, rest2, some tag)
            | none => none
          | none => none
        | [] => none
      else some (p, rest, none)
    | [] => some (p, rest, none)

/-! ### terminals that contain no expression -/

/-- `PEEK[a..b]`: `opening_brack ~ integer? ~ range_operator ~ integer? ~ closing_brack`. -/
def peekSlice (text : Str) (cs : List Tree) : Option Expr :=
  match cs with
  | _ :: ps :: rest =>
    let start? : Option (Int × List Tree) :=
      if kind ps = "range_operator" then some (0, rest)
      else if kind ps = "integer" then
        match rest with
        | _ :: rest' => (integerOf text ps).map fun i => (i, rest')
        | [] => none
      else none
    match start? with
    | some (a, pe :: rest') =>
      if kind pe = "closing_brack" then some (.peekSlice a none)
      else if kind pe = "integer" then
        match rest' with
        | _ :: _ => (integerOf text pe).map fun b => .peekSlice a (some b)
        | [] => none
      else none
    | _ => none
  | _ => none

def leafNode (extras : Bool) (text : Str) (pair : Tree) : Option Expr :=
  let k := kind pair
  if k = "_push_literal" then
    if extras then
      match pair.children with
      | _ :: c :: _ => (literal text c).map .pushLiteral
      | _ => none
    else none                              -- "PUSH_LITERAL requires feature grammar-extras"
  else if k = "peek_slice" then peekSlice text pair.children
  else if k = "identifier" then (strOf text pair).map fun s => .ident (String.ofList s)
  else if k = "string" then (literal text pair).map .str
  else if k = "insensitive_string" then
    match pair.children with
    | lit :: _ => (literal text lit).map .insens
    | [] => none
  else if k = "range" then
    match pair.children with
    | a :: _ :: b :: _ =>
      match literal text a, literal text b with
      | some x, some y =>
        match theChar x, theChar y with
        | some c, some d => some (.range c d)
        | _, _ => none
      | _, _ => none
    | _ => none
  else none

/-! ### postfix operators (the `try_fold` of `unaries`) -/

def postfixOp (text : Str) (node : Expr) (p : Tree) : Option Expr :=
  let k := kind p
  if k = "optional_operator" then some (.opt node)
  else if k = "repeat_operator" then some (.rep node)
  else if k = "repeat_once_operator" then some (.repOnce node)
  else if k = "repeat_exact" then
    match p.children with
    | _ :: n :: _ =>
      match numberOf text n with
      | some num => if num = 0 then none else some (.repExact node num)
      | none => none
    | _ => none
  else if k = "repeat_min" then
    match p.children with
    | _ :: n :: _ => (numberOf text n).map fun m => .repMin node m
    | _ => none
  else if k = "repeat_max" then
    match p.children with
    | _ :: _ :: n :: _ =>
      match numberOf text n with
      | some mx => if mx = 0 then none else some (.repMax node mx)
      | none => none
    | _ => none
  else if k = "repeat_min_max" then
    match p.children with
    | _ :: a :: _ :: b :: _ =>
      match numberOf text a, numberOf text b with
      | some mn, some mx => if mx = 0 then none else some (.repMinMax node mn mx)
      | _, _ => none
    | _ => none
  else if k = "closing_paren" then some node
  else none

def postfixes (text : Str) (node : Expr) (ps : List Tree) : Option Expr := ps.foldlM (postfixOp text) node

/-! ### the infix stage: `pratt.map_primary(term).map_infix(infix).parse(pairs)` -/

def isOp (t : Tree) : Bool := kind t = "choice_operator" || kind t = "sequence_operator"

/-- a leading `choice_operator` is skipped. -/
def dropLead (ps : List Tree) : List Tree :=
  match ps with
  | p :: rest => if kind p = "choice_operator" then rest else ps
  | [] => []

/-- the pairs as Pratt tokens: `|` ↦ `altTok`, `~` ↦ `seqTok`, every other pair is a primary, numbered
from `i` in order of appearance. -/
def tokens : List Tree → Nat → List Nat
  | [], _ => []
  | p :: ps, i =>
    if kind p = "choice_operator" then altTok :: tokens ps i
    else if kind p = "sequence_operator" then seqTok :: tokens ps i
    else (100 + i) :: tokens ps (i + 1)

/-- `map_infix`: both operands must be `Ok`. -/
def build (prims : List (Option Expr)) : Bin → Option Expr
  | .leaf i => match prims[i]? with | some r => r | none => none
  | .seq a b => match build prims a, build prims b with | some x, some y => some (.seq x y) | _, _ => none
  | .alt a b => match build prims a, build prims b with | some x, some y => some (.choice x y) | _, _ => none

/-- the Pratt parser of the reader on the pairs, given what `term` returns for each primary. -/
def infixStage (ps : List Tree) (prims : List (Option Expr)) : Option Expr :=
  match Pratt.parse readerTable (tokens ps 0) with
  | .ok (t, _) => match ofTree t with | some b => build prims b | none => none
  | _ => none

/-! ### `consume_expr` and its `unaries`

The bodies are written once, over the recursive calls `ce` (`consume_expr`) and `un` (`unaries`); the
two functions tie the knot by recursion on fuel. -/

/-- the dispatch of `unaries` on the pair that follows the optional tag: parenthesis and prefix operators
recurse on the remaining pairs; any other pair is the node, and the remaining pairs are folded over it
as postfix operators (a `closing_paren` among them is skipped). -/
def nodeOf (extras : Bool) (text : Str) (ce un : List Tree → Option Expr) (pair : Tree) (rest : List Tree) :
    Option Expr :=
  let k := kind pair
  if k = "opening_paren" then un rest
  else if k = "positive_predicate_operator" then (un rest).map .posPred
  else if k = "negative_predicate_operator" then (un rest).map .negPred
  else
    let inner : Option Expr :=
      if k = "expression" then ce pair.children
      else if k = "_push" then
        match pair.children with
        | _ :: e :: _ => (ce e.children).map .push
        | _ => none
      else leafNode extras text pair
    match inner with
    | some n => postfixes text n rest
    | none => none

/-- the tag wraps the finished term — only with `grammar-extras`; otherwise it is dropped. -/
def wrapTag (extras : Bool) (node : Option Expr) (tag : Option Str) : Option Expr :=
  match node, tag with
  | some n, some t => if extras then some (.nodeTag n t) else some n
  | n, _ => n

/-- body of `unaries(pairs, pratt)`. -/
def unariesStep (extras : Bool) (text : Str) (ce un : List Tree → Option Expr) (pairs : List Tree) : Option Expr :=
  match getNodeTag text pairs with
  | none => none
  | some (pair, rest, tag) => wrapTag extras (nodeOf extras text ce un pair rest) tag

/-- body of `consume_expr(pairs, pratt)`: skip a leading `|`, read every primary with `term` =
`unaries` of its inner pairs, combine with the Pratt parser. -/
def consumeExprStep (un : List Tree → Option Expr) (pairs : List Tree) : Option Expr :=
  let ps := dropLead pairs
  infixStage ps ((ps.filter fun p => !isOp p).map fun p => un p.children)

mutual
  /-- `consume_expr(pairs, pratt)` on the inner pairs of an `expression`. -/
  def consumeExpr (extras : Bool) (text : Str) : Nat → List Tree → Option Expr
    | 0, _ => none
    | f + 1, pairs => consumeExprStep (unaries extras text f) pairs
  /-- `unaries(pairs, pratt)` on the inner pairs of a `term` (or a suffix of them). -/
  def unaries (extras : Bool) (text : Str) : Nat → List Tree → Option Expr
    | 0, _ => none
    | f + 1, pairs => unariesStep extras text (consumeExpr extras text f) (unaries extras text f) pairs
end

/-! ### `consume_rules_with_spans` + `convert_rule` -/

def modifierOf (k : String) : Option RuleType :=
  if k = "silent_modifier" then some .silent
  else if k = "atomic_modifier" then some .atomic
  else if k = "compound_atomic_modifier" then some .compound
  else if k = "non_atomic_modifier" then some .nonAtomic
  else none

/-- one `grammar_rule` pair that is not a `line_doc`:
`identifier ~ assignment_operator ~ modifier? ~ opening_brace ~ expression ~ closing_brace` —
the name, the type and the (non-empty) inner pairs of the expression. -/
def ruleParts (text : Str) (t : Tree) : Option (String × RuleType × List Tree) :=
  match t.children with
  | id :: _ :: m :: rest =>
    let tyRest : Option (RuleType × List Tree) :=
      if kind m ≠ "opening_brace" then (modifierOf (kind m)).map fun ty => (ty, rest)
      else some (.normal, m :: rest)
    match tyRest, strOf text id with
    | some (ty, _ :: e :: _), some name =>
      match e.children with
      | [] => none                                    -- `inner_nodes.peek().unwrap()`
      | inner => some (String.ofList name, ty, inner)
    | _, _ => none
  | _ => none

/-- the rule: a leading `|` of the body is skipped here (and `consume_expr` would skip one, too). -/
def consumeRule (extras : Bool) (text : Str) (fuel : Nat) (t : Tree) : Option Rule :=
  match ruleParts text t with
  | some (name, ty, inner) => (consumeExpr extras text fuel (dropLead inner)).map fun body => ⟨name, ty, body⟩
  | none => none

def consumeRulesGo (extras : Bool) (text : Str) (fuel : Nat) : List Tree → Option (List Rule)
  | [] => some []
  | t :: ts =>
    if kind t = "grammar_rule" then
      match t.children with
      | [] => none                                    -- `pairs.next().unwrap()`
      | c :: _ =>
        if kind c = "line_doc" then consumeRulesGo extras text fuel ts
        else
          match consumeRule extras text fuel t, consumeRulesGo extras text fuel ts with
          | some r, some rs => some (r :: rs)
          | _, _ => none
    else consumeRulesGo extras text fuel ts

/-- `consume_rules_with_spans(pairs)` mapped through `convert_rule` (no validation). -/
def consumeRulesWithSpans (extras : Bool) (text : Str) (forest : List Tree) : Option (List Rule) :=
  consumeRulesGo extras text (PestModel.Views.sizeList forest + 1) forest

/-- `consume_rules(pairs)`: the rules, provided `validate_ast` has nothing to report. -/
def consumeRules (extras : Bool) (text : Str) (forest : List Tree) : Option (List Rule) :=
  match consumeRulesWithSpans extras text forest with
  | some rules => if (PestModel.V.validateAst extras rules).isEmpty then some rules else none
  | none => none

/-! ### the whole reader -/

def noUni : String → Option PestModel.PS.CharSet := fun _ => none

/-- `parse(Rule::grammar_rules, text).ok().and_then(|p| consume_rules(p).ok())`. -/
def readGrammar (extras : Bool) (text : Str) : Option (List Rule) :=
  match PestModel.Ref.meaning PestModel.Gen.Meta.rules false noUni 1000000 "grammar_rules" text with
  | .ok _ forest => consumeRules extras text forest
  | _ => none

/-- for the driver: `none` when the reference denotation gives no verdict on the text (out of fuel; the
meta-grammar has no `PEEK`/`POP`, so `stuck` cannot occur), otherwise `some (readGrammar …)`. -/
def readGrammarOutcome (extras : Bool) (text : Str) : Option (Option (List Rule)) :=
  match PestModel.Ref.meaning PestModel.Gen.Meta.rules false noUni 1000000 "grammar_rules" text with
  | .ok _ forest => some (consumeRules extras text forest)
  | .fail => some none
  | _ => none

/-- the same without `validate_ast` (for diagnosis). -/
def readGrammarNoValidation (extras : Bool) (text : Str) : Option (List Rule) :=
  match PestModel.Ref.meaning PestModel.Gen.Meta.rules false noUni 1000000 "grammar_rules" text with
  | .ok _ forest => consumeRulesWithSpans extras text forest
  | _ => none

end PestModel.ReaderFull
