import PestModel.Model.PStateSpec
import PestModel.Lemmas.PStateInv
import PestModel.Lemmas.PStateLimitTr
import PestModel.Lemmas.PStateLimitK
import PestModel.Lemmas.PStateLimitTw
import PestModel.Lemmas.PStateLimitSim
import PestModel.Lemmas.PStateDetail
/-!
Helper lemmas for C12 (call limit) and C15 (detailed attempts); see
* `PStateLimitTr`  — the trace of a completed run w.r.t. `calls`/`pa`; monotonicity facts;
* `PStateLimitK`   — the bracketing combinators in uniform shape;
* `PStateLimitTw`  — commutation of the interpreter with rewriting `calls`/`pa`;
* `PStateLimitSim` — the call-limit simulation;
* `PStateDetail`   — the detail-erasure simulation.
-/
namespace PestModel.PS

end PestModel.PS
