import PestModel.Model.Validator
import PestModel.Model.Ref
import PestModel.Model.RefSpec
import PestModel.Lemmas.Validator
import PestModel.Lemmas.ValidatorSound
/-!
# C06 — validation guarantees termination and accepts well-formed grammars

`PestModel.V.validateAst` is `pest_meta::validator::validate_ast` (tied to the real validator by the
verdict correspondence), after the fixes of `left_recursion::check_expr`: the trace is a chain of
(rule, skipping inside it) pairs, and the implicit `WHITESPACE`/`COMMENT` calls behind a sequence
head — or behind the first copy of a bounded repetition — that may match nothing are entered too.
`PestModel.Ref` is the reference semantics.

* `validator_sound_partial`: every rule call of an accepted stack-free grammar terminates, provided
  that without `grammar-extras` the rules contain no tagged expression. With `grammar-extras` there is
  no side condition (`validator_sound_extras`).
* Soundness as first stated (`ValidatorSoundStmt`, any hand-built AST) is **false** for exactly that
  reason: `validator_sound_refuted_tag` (tags without `grammar-extras` are not looked into).
* The two grammars on which the earlier versions of the check were unsound are now rejected, and
  still diverge in the reference semantics: `cexWs` (`WHITESPACE = _{ a }  a = !{ EOI ~ "x" }`, implicit
  skip behind a sequence head) and `cexRep` (`WHITESPACE = _{ a ~ "y" }  a = !{ "x"{,2} }`, implicit skip
  between the unrolled copies of a bounded repetition).
* Completeness (`validator_complete`): strictly guarded grammars are accepted.
-/
namespace PestModel.C06
open PestModel.V PestModel.G PestModel.Ref
open PestModel.PS (Atomicity CharSet)
open PestModel.LineCol (Str)

/-- the four grammars the old check accepted are rejected (the fix of `check_expr` is mirrored). -/
theorem left_recursion_examples :
    leftRecursion false [⟨"a", .normal, .seq (.opt (.ident "a")) (.str ['x'])⟩] = [.leftRecursive "a"] ∧
    leftRecursion false [⟨"a", .normal, .seq (.negPred (.ident "a")) (.str ['x'])⟩] = [.leftRecursive "a"] ∧
    leftRecursion false [⟨"a", .normal, .repExact (.ident "a") 2⟩] = [.leftRecursive "a"] ∧
    leftRecursion false [⟨"a", .normal, .seq (.ident "b") (.str ['x'])⟩, ⟨"b", .normal, .opt (.ident "a")⟩] =
      [.leftRecursive "a", .leftRecursive "b"] := by decide

/-- the stack built-ins. -/
def stackBuiltins : List String := ["PUSH", "PEEK", "PEEK_ALL", "POP", "POP_ALL", "DROP"]

/-- names with a fixed meaning that a grammar cannot redefine (`validate_pest_keywords` /
`validate_rust_keywords` reject them before `validate_ast` runs). -/
def reserved : List String := ["ANY", "SOI", "EOI"] ++ stackBuiltins

/-- the expression does not use the stack. -/
def StackFree : Expr → Bool
  | .ident n => !stackBuiltins.contains n
  | .peekSlice _ _ | .push _ | .pushLiteral _ => false
  | .posPred e | .negPred e | .opt e | .rep e | .repOnce e | .nodeTag e _ => StackFree e
  | .repExact e _ | .repMin e _ | .repMax e _ | .repMinMax e _ _ => StackFree e
  | .seq a b | .choice a b => StackFree a && StackFree b
  | _ => true

/-- what the earlier validation stages (`validate_pairs`) guarantee: distinct rule names, none reserved. -/
def WellNamed (rules : List Rule) : Prop :=
  (rules.map (·.name)).Nodup ∧ ∀ r ∈ rules, r.name ∉ reserved

/-- **Soundness, as originally stated** (a proposition, not a theorem): if the validator accepts a
stack-free grammar, then parsing any input from any of its rules, in any mode, from any position,
terminates (the reference semantics reaches a definite result: success, failure, or `stuck` on an
undefined name). It is **false** (`validator_sound_refuted`, because of tags without
`grammar-extras`); `validator_sound_partial` is the nearest true statement. -/
def ValidatorSoundStmt : Prop :=
  ∀ (extras : Bool) (rules : List Rule), WellNamed rules →
    (∀ r ∈ rules, StackFree r.expr = true) → validateAst extras rules = [] →
    ∀ (uni : String → Option CharSet) (input : Str) (name : String) (m : Atomicity) (la : Bool) (s : St),
      ∃ fuel, call { rules, input, extras, uni } fuel m la name s ≠ .fuel

/-! ### the grammars the earlier versions of the check wrongly accepted -/

/-- `WHITESPACE = _{ a }   a = !{ EOI ~ "x" }`: a `!{…}` rule reachable from `WHITESPACE`. Inside
`a` the sequence skips implicit whitespace, which calls `WHITESPACE`, which calls `a` … at the
same position. The left-recursion check now enters the implicit call. -/
def cexWs : List Rule :=
  [⟨"WHITESPACE", .silent, .ident "a"⟩, ⟨"a", .nonAtomic, .seq (.ident "EOI") (.str ['x'])⟩]

/-- the fixed check rejects it. -/
theorem cexWs_rejected : ∀ extras, validateAst extras cexWs = [.leftRecursive "WHITESPACE", .leftRecursive "a"] := by
  decide

theorem cexWs_wellNamed : WellNamed cexWs := by
  constructor
  · decide
  · decide

theorem cexWs_stackFree : ∀ r ∈ cexWs, StackFree r.expr = true := by decide

theorem cexWs_step (extras : Bool) (uni : String → Option CharSet) (k : Nat) (m : Atomicity) (la : Bool)
    (h : call { rules := cexWs, input := [], extras, uni } k .atomic la "a" ⟨0, []⟩ = .fuel) :
    call { rules := cexWs, input := [], extras, uni } (k + 6) m la "a" ⟨0, []⟩ = .fuel := by
  simp only [cexWs] at h
  simp [call, denote, skipWs, star, Ctx.rule?, Ctx.rule?.go, Ctx.has, cexWs, bodyMode, PestModel.LineCol.bLen, h]

/-- on the empty input, calling `a` needs unbounded fuel (so the rejection is justified). -/
theorem cexWs_diverges (extras : Bool) (uni : String → Option CharSet) :
    ∀ (k : Nat) (m : Atomicity) (la : Bool),
      call { rules := cexWs, input := [], extras, uni } k m la "a" ⟨0, []⟩ = .fuel := by
  intro k
  induction k with
  | zero => intro m la; rfl
  | succ k ih =>
    intro m la
    have h6 := cexWs_step extras uni k m la (ih .atomic la)
    have hle := (lev_mono { rules := cexWs, input := [], extras, uni } (show k + 1 ≤ k + 6 by omega)).ca m la "a" ⟨0, []⟩
    rcases hle with hle | hle
    · exact hle
    · exact hle.trans h6

/-- `WHITESPACE = _{ a ~ "y" }   a = !{ "x"{,2} }`: `"x"{,2}` means `"x"? ~ "x"?`; when the first copy
matches nothing, the implicit skip between the copies calls `WHITESPACE` at the same position, which
calls `a`. The left-recursion check now enters the implicit call behind the first copy of a bounded
repetition. -/
def cexRep : List Rule :=
  [⟨"WHITESPACE", .silent, .seq (.ident "a") (.str ['y'])⟩, ⟨"a", .nonAtomic, .repMax (.str ['x']) 2⟩]

/-- the fixed check rejects it. -/
theorem cexRep_rejected : ∀ extras, validateAst extras cexRep = [.leftRecursive "WHITESPACE", .leftRecursive "a"] := by
  decide

theorem cexRep_stackFree : ∀ r ∈ cexRep, StackFree r.expr = true := by decide

theorem cexRep_step (extras : Bool) (uni : String → Option CharSet) (k : Nat) (m : Atomicity) (la : Bool)
    (h : call { rules := cexRep, input := [], extras, uni } k .atomic la "a" ⟨0, []⟩ = .fuel) :
    call { rules := cexRep, input := [], extras, uni } (k + 8) m la "a" ⟨0, []⟩ = .fuel := by
  simp only [cexRep] at h
  simp [call, denote, skipWs, star, lit, seqOfList, PestModel.PS.restAt, PestModel.LineCol.splitAt?, Ctx.rule?,
    Ctx.rule?.go, Ctx.has, cexRep, bodyMode, h]

/-- on the empty input, calling `a` needs unbounded fuel. -/
theorem cexRep_diverges (extras : Bool) (uni : String → Option CharSet) :
    ∀ (k : Nat) (m : Atomicity) (la : Bool),
      call { rules := cexRep, input := [], extras, uni } k m la "a" ⟨0, []⟩ = .fuel := by
  intro k
  induction k with
  | zero => intro m la; rfl
  | succ k ih =>
    intro m la
    have h8 := cexRep_step extras uni k m la (ih .atomic la)
    have hle := (lev_mono { rules := cexRep, input := [], extras, uni } (show k + 1 ≤ k + 8 by omega)).ca m la "a" ⟨0, []⟩
    rcases hle with hle | hle
    · exact hle
    · exact hle.trans h8

/-! ### the remaining counterexample to the statement for hand-built ASTs -/

/-- `a = { #t = a }` without `grammar-extras`: the validator does not look into tagged expressions
(the meta-grammar cannot produce a tag without `grammar-extras`, so this needs a hand-built AST). -/
def cexTag : List Rule := [⟨"a", .normal, .nodeTag (.ident "a") ['t']⟩]

theorem cexTag_accepted : validateAst false cexTag = [] := by decide

theorem cexTag_step (uni : String → Option CharSet) (input : Str) (k : Nat) (m : Atomicity) (la : Bool) (s : St)
    (h : call { rules := cexTag, input, extras := false, uni } k m la "a" s = .fuel) :
    call { rules := cexTag, input, extras := false, uni } (k + 3) m la "a" s = .fuel := by
  simp only [cexTag] at h
  simp [call, denote, Ctx.rule?, Ctx.rule?.go, cexTag, bodyMode, h]

theorem cexTag_diverges (uni : String → Option CharSet) (input : Str) :
    ∀ (k : Nat) (m : Atomicity) (la : Bool) (s : St),
      call { rules := cexTag, input, extras := false, uni } k m la "a" s = .fuel := by
  intro k
  induction k with
  | zero => intro m la s; rfl
  | succ k ih =>
    intro m la s
    have h3 := cexTag_step uni input k m la s (ih m la s)
    have hle := (lev_mono { rules := cexTag, input, extras := false, uni } (show k + 1 ≤ k + 3 by omega)).ca m la "a" s
    rcases hle with hle | hle
    · exact hle
    · exact hle.trans h3

/-- the statement for arbitrary ASTs is false: tags without `grammar-extras` are not looked into. -/
theorem validator_sound_refuted_tag : ¬ ValidatorSoundStmt := by
  intro H
  obtain ⟨fuel, h⟩ := H false cexTag (by constructor <;> decide) (by decide) cexTag_accepted
    (fun _ => none) [] "a" .nonAtomic false ⟨0, []⟩
  exact h (cexTag_diverges _ _ fuel _ _ _)

/-- **the soundness statement (for arbitrary ASTs) is false.** -/
theorem validator_sound_refuted : ¬ ValidatorSoundStmt := validator_sound_refuted_tag

/-! ### the nearest true statement -/

theorem stackFree_eq_SF : ∀ e : Expr, StackFree e = SF e := by
  intro e
  induction e <;> simp_all [StackFree, SF, stackBuiltins, stackNames]

/-- **Soundness.** If the validator accepts a stack-free grammar — and, without `grammar-extras`, the
rules contain no tagged expression (`NoTag`; the meta-grammar cannot produce one) — then every rule
call, in every mode, from every state, terminates. `WellNamed` is not needed. The hypothesis `htag`
excludes exactly the counterexample `cexTag`. -/
theorem validator_sound_partial (extras : Bool) (rules : List Rule)
    (hsf : ∀ r ∈ rules, StackFree r.expr = true) (hv : validateAst extras rules = [])
    (htag : extras = false → ∀ r ∈ rules, NoTag r.expr = true)
    (uni : String → Option CharSet) (input : Str) (name : String) (m : Atomicity) (la : Bool) (s : St) :
    ∃ fuel, call { rules, input, extras, uni } fuel m la name s ≠ .fuel := by
  let c : Ctx := { rules, input, extras, uni }
  have hsf' : ∀ r ∈ c.rules, SF r.expr = true := fun r hr => by rw [← stackFree_eq_SF]; exact hsf r hr
  have htag' : ∀ r ∈ c.rules, TagOK c.extras r.expr = true := by
    intro r hr
    cases hx : extras with
    | true => simp [TagOK, c, hx]
    | false => simp [TagOK, c, hx, htag hx r hr]
  have hne := sound_core (c := c) hsf' htag' hv name s m la
  obtain ⟨n, hn⟩ := exists_call c m la name s
  exact ⟨n, by rw [hn]; exact hne⟩

/-- **Soundness with `grammar-extras`**: no side condition besides stack-freeness. -/
theorem validator_sound_extras (rules : List Rule)
    (hsf : ∀ r ∈ rules, StackFree r.expr = true) (hv : validateAst true rules = [])
    (uni : String → Option CharSet) (input : Str) (name : String) (m : Atomicity) (la : Bool) (s : St) :
    ∃ fuel, call { rules, input, extras := true, uni } fuel m la name s ≠ .fuel :=
  validator_sound_partial true rules hsf hv (fun h => by cases h) uni input name m la s

/-- in particular a parse from any rule (`meaning`) terminates. -/
theorem validator_sound_meaning (extras : Bool) (rules : List Rule)
    (hsf : ∀ r ∈ rules, StackFree r.expr = true) (hv : validateAst extras rules = [])
    (htag : extras = false → ∀ r ∈ rules, NoTag r.expr = true)
    (uni : String → Option CharSet) (rule : String) (input : Str) :
    ∃ fuel, meaning rules extras uni fuel rule input ≠ .fuel :=
  validator_sound_partial extras rules hsf hv htag uni input rule .nonAtomic false ⟨0, []⟩

/-- the counterexample `cexTag` violates exactly `htag`. -/
theorem cexTag_not_noTag : ¬ ∀ r ∈ cexTag, NoTag r.expr = true := by decide

/-- `e` begins by matching at least one character through a non-empty literal, a range or a
single-character built-in (a name the grammar does not define and that is not `SOI`/`EOI`/a stack
built-in). -/
def Lead (rules : List Rule) : Expr → Bool
  | .str s | .insens s => !s.isEmpty
  | .range _ _ => true
  | .ident n => (lookup rules n).isNone && n ≠ "SOI" && n ≠ "EOI" && !stackBuiltins.contains n
  | .seq a _ => Lead rules a
  | .choice a b => Lead rules a && Lead rules b
  | .repOnce e | .nodeTag e _ => Lead rules e
  | .repExact e n | .repMin e n => decide (0 < n) && Lead rules e
  | .repMinMax e lo _ => decide (0 < lo) && Lead rules e
  | _ => false

/-- every reference to a grammar rule sits behind a leading character (so no path from a rule back
to itself starts without consuming input), every repetition body and every non-final choice
alternative is `Lead`. `leftmost = true` while nothing has been consumed yet on this path. -/
def Guarded (rules : List Rule) : Bool → Expr → Bool
  | leftmost, .ident n => !(leftmost && (lookup rules n).isSome)
  | leftmost, .seq a b => Guarded rules leftmost a && Guarded rules (leftmost && !Lead rules a) b
  | leftmost, .choice a b => Lead rules a && Guarded rules leftmost a && Guarded rules leftmost b
  | leftmost, .rep e | leftmost, .repOnce e => Lead rules e && Guarded rules leftmost e
  | leftmost, .repMin e _ => Lead rules e && Guarded rules leftmost e
  | leftmost, .repExact e _ | leftmost, .repMax e _ | leftmost, .repMinMax e _ _ => Guarded rules leftmost e
  | leftmost, .opt e | leftmost, .posPred e | leftmost, .negPred e | leftmost, .push e | leftmost, .nodeTag e _ =>
    Guarded rules leftmost e
  | _, _ => true

/-- the whole grammar is strictly guarded; `WHITESPACE` and `COMMENT`, if defined, begin with a character. -/
def StrictlyGuarded (rules : List Rule) : Prop :=
  (∀ r ∈ rules, Guarded rules true r.expr = true) ∧
  (∀ r ∈ rules, (r.name = "WHITESPACE" ∨ r.name = "COMMENT") → Lead rules r.expr = true)

/-- tags (grammar-extras) are only put on expressions that are not silent rules or built-ins. -/
def TagsOk (extras : Bool) (rules : List Rule) : Prop := validateTags extras rules = []

/-! ### completeness: helper lemmas -/

theorem lead_not_nonFailing (rules : List Rule) : ∀ (fuel : Nat) (e : Expr) (trace : List String),
    Lead rules e = true → isNonFailing rules fuel e trace = false := by
  intro fuel
  induction fuel with
  | zero => intros; rfl
  | succ fuel ih =>
    intro e trace h
    cases e <;> simp only [Lead, Bool.and_eq_true, decide_eq_true_eq, Bool.false_eq_true] at h <;>
      simp only [isNonFailing]
    case str s => simpa using h
    case insens s => simpa using h
    case ident n =>
      have hl : lookup rules n = none := by simpa using h.1.1.1
      simp [hl]
    case seq a b => simp [ih a trace h]
    case choice a b => simp [ih a trace h.1, ih b trace h.2]
    case repOnce e => exact ih e trace h
    case nodeTag e t => exact ih e trace h
    case repExact e n =>
      have : (n == 0) = false := by simp; omega
      simp [this, ih e trace h.2]
    case repMin e n =>
      have : (n == 0) = false := by simp; omega
      simp [this, ih e trace h.2]
    case repMinMax e lo hi =>
      have : (lo == 0) = false := by simp; omega
      simp [this, ih e trace h.2]

theorem lead_not_nonProgressing (rules : List Rule) : ∀ (fuel : Nat) (e : Expr) (trace : List String),
    Lead rules e = true → isNonProgressing rules fuel e trace = false := by
  intro fuel
  induction fuel with
  | zero => intros; rfl
  | succ fuel ih =>
    intro e trace h
    cases e <;> simp only [Lead, Bool.and_eq_true, decide_eq_true_eq, Bool.false_eq_true] at h <;>
      simp only [isNonProgressing]
    case str s => simpa using h
    case insens s => simpa using h
    case ident n =>
      have hl : lookup rules n = none := by simpa using h.1.1.1
      have h1 : n ≠ "SOI" := by simpa using h.1.1.2
      have h2 : n ≠ "EOI" := by simpa using h.1.2
      simp [hl, h1, h2]
    case seq a b => simp [ih a trace h]
    case choice a b => simp [ih a trace h.1, ih b trace h.2]
    case repOnce e => exact ih e trace h
    case nodeTag e t => exact ih e trace h
    case repExact e n =>
      have : (n == 0) = false := by simp; omega
      simp [this, ih e trace h.2]
    case repMin e n =>
      have : (n == 0) = false := by simp; omega
      simp [this, ih e trace h.2]
    case repMinMax e lo hi =>
      have : (lo == 0) = false := by simp; omega
      simp [this, ih e trace h.2]

theorem lead_choiceNode (rules : List Rule) (lhs : Expr) :
    Lead rules lhs = true → Lead rules (match lhs with | .choice _ rhs => rhs | _ => lhs) = true := by
  intro hl
  split
  · simp only [Lead, Bool.and_eq_true] at hl; exact hl.2
  · exact hl

/-- every sub-expression of a guarded expression is guarded (for some `leftmost` flag). -/
theorem guarded_subExprs (extras : Bool) (rules : List Rule) : ∀ (e : Expr) (lm : Bool), Guarded rules lm e = true →
    ∀ x ∈ subExprs extras e, ∃ lm', Guarded rules lm' x = true := by
  intro e
  induction e with
  | seq a b iha ihb =>
    intro lm h x hx
    simp only [subExprs, List.mem_cons, List.mem_append] at hx
    rcases hx with rfl | hx | hx
    · exact ⟨lm, h⟩
    · simp only [Guarded, Bool.and_eq_true] at h; exact iha _ h.1 x hx
    · simp only [Guarded, Bool.and_eq_true] at h; exact ihb _ h.2 x hx
  | choice a b iha ihb =>
    intro lm h x hx
    simp only [subExprs, List.mem_cons, List.mem_append] at hx
    rcases hx with rfl | hx | hx
    · exact ⟨lm, h⟩
    · simp only [Guarded, Bool.and_eq_true] at h; exact iha _ h.1.2 x hx
    · simp only [Guarded, Bool.and_eq_true] at h; exact ihb _ h.2 x hx
  | rep a ih | repOnce a ih | repMin a n ih =>
    intro lm h x hx
    simp only [subExprs, List.mem_cons] at hx
    rcases hx with rfl | hx
    · exact ⟨lm, h⟩
    · simp only [Guarded, Bool.and_eq_true] at h; exact ih _ h.2 x hx
  | posPred a ih | negPred a ih | opt a ih | push a ih | repExact a n ih | repMax a n ih | repMinMax a lo hi ih =>
    intro lm h x hx
    simp only [subExprs, List.mem_cons] at hx
    rcases hx with rfl | hx
    · exact ⟨lm, h⟩
    · simp only [Guarded] at h; exact ih _ h x hx
  | nodeTag a t ih =>
    intro lm h x hx
    simp only [subExprs, List.mem_cons] at hx
    rcases hx with rfl | hx
    · exact ⟨lm, h⟩
    · cases extras
      · simp at hx
      · simp only [Guarded] at h; exact ih _ h x (by simpa using hx)
  | _ =>
    intro lm h x hx
    simp only [subExprs, List.mem_singleton] at hx
    subst hx
    exact ⟨lm, h⟩

/-- the left-recursion check never fires on a guarded expression: it stops at the first leading
character, no grammar rule is referenced before it, and the implicit rules (which it may enter where
skipping is on) begin with a character. -/
theorem guarded_checkExpr (extras : Bool) (rules : List Rule) (hG : ∀ r ∈ rules, Guarded rules true r.expr = true) :
    ∀ (fuel : Nat) (e : Expr) (trace : List (String × Bool)) (skips : Bool),
    (∀ k ∈ trace, (lookup rules k.1).isSome = true) →
    (skips = true → trace.head? ≠ some ("WHITESPACE", false) ∧ trace.head? ≠ some ("COMMENT", false)) →
    Guarded rules true e = true → checkExpr extras rules fuel e trace skips = false := by
  intro fuel
  induction fuel with
  | zero => intros; rfl
  | succ fuel ih =>
    intro e trace skips htr hsk h
    have himpl : implF extras rules fuel trace skips = false := by
      cases skips with
      | false => simp [implF]
      | true =>
        have key : ∀ nm, (nm = "WHITESPACE" ∨ nm = "COMMENT") → enterF extras rules fuel trace true nm = false := by
          intro nm hn
          have hs : skipsInside rules nm true = false := skipsInside_ws rules hn true
          have hh : trace.head? ≠ some (nm, false) := by
            rcases hn with rfl | rfl
            · exact (hsk rfl).1
            · exact (hsk rfl).2
          by_cases hc : (nm, false) ∈ trace
          · simp [enterF, checkExpr, hs, hh, hc]
          · cases hl : lookup rules nm with
            | none => simp [enterF, checkExpr, hs, hh, hc, hl]
            | some body =>
              rw [enterF_step (by rw [hs]; exact hc) hl, hs]
              obtain ⟨r, hr, _, hrb⟩ := lookup_some_mem hl
              refine ih body _ false ?_ (fun h => by cases h) (hrb ▸ hG r hr)
              intro k hk
              simp only [List.mem_append, List.mem_singleton] at hk
              rcases hk with hk | rfl
              · exact htr k hk
              · simp [hl]
        simp [implF, key _ (Or.inl rfl), key _ (Or.inr rfl)]
    cases e <;> simp only [Guarded, Bool.and_eq_true, Bool.true_and] at h
    case ident n =>
      have hl : lookup rules n = none := by simpa using h
      have hnot : ∀ b, (n, b) ∉ trace := fun b hm => by have := htr _ hm; simp [hl] at this
      have hh : ∀ b, trace.head? ≠ some (n, b) := fun b hh => hnot b (List.mem_of_mem_head? hh)
      simp [checkExpr, hh, hl]
    case seq a b =>
      rw [checkExpr_seq']
      cases hL : Lead rules a with
      | true =>
        rw [lead_not_nonFailing rules _ a _ hL, lead_not_nonProgressing rules _ a _ hL]
        simpa using ih a trace skips htr hsk h.1
      | false =>
        have hb : Guarded rules true b = true := by simpa [hL] using h.2
        simp [ih a trace skips htr hsk h.1, ih b trace skips htr hsk hb, himpl]
    case choice a b => simp [checkExpr, ih a trace skips htr hsk h.1.2, ih b trace skips htr hsk h.2]
    case rep a => simp only [checkExpr]; exact ih a trace skips htr hsk h.2
    case repOnce a => simp only [checkExpr]; exact ih a trace skips htr hsk h.2
    case repMin a n => simp only [checkExpr]; exact ih a trace skips htr hsk h.2
    case opt a => simp only [checkExpr]; exact ih a trace skips htr hsk h
    case posPred a => simp only [checkExpr]; exact ih a trace skips htr hsk h
    case negPred a => simp only [checkExpr]; exact ih a trace skips htr hsk h
    case push a => simp only [checkExpr]; exact ih a trace skips htr hsk h
    case repExact a n => rw [checkExpr_repExact']; simp [ih a trace skips htr hsk h, himpl]
    case repMax a n => rw [checkExpr_repMax]; simp [ih a trace skips htr hsk h, himpl]
    case repMinMax a lo hi => rw [checkExpr_repMinMax']; simp [ih a trace skips htr hsk h, himpl]
    case nodeTag a t =>
      simp only [checkExpr]
      cases extras
      · simp
      · simpa using ih a trace skips htr hsk h
    all_goals simp [checkExpr]

/-- **Completeness.** A strictly guarded, well-named grammar is accepted. -/
theorem validator_complete (extras : Bool) (rules : List Rule) (hwn : WellNamed rules)
    (hg : StrictlyGuarded rules) (ht : TagsOk extras rules) : validateAst extras rules = [] := by
  have _ := hwn
  obtain ⟨hG, hW⟩ := hg
  have hrep : validateRepetition extras rules = [] := by
    unfold validateRepetition
    rw [List.flatMap_eq_nil_iff]
    intro r hr
    rw [List.filterMap_eq_nil_iff]
    intro x hx
    obtain ⟨lm, hgx⟩ := guarded_subExprs extras rules r.expr true (hG r hr) x hx
    split
    all_goals try rfl
    all_goals
      simp only [Guarded, Bool.and_eq_true] at hgx
      rw [lead_not_nonFailing rules _ _ _ hgx.1, lead_not_nonProgressing rules _ _ _ hgx.1]
      rfl
  have hch : validateChoices extras rules = [] := by
    unfold validateChoices
    rw [List.flatMap_eq_nil_iff]
    intro r hr
    rw [List.filterMap_eq_nil_iff]
    intro x hx
    obtain ⟨lm, hgx⟩ := guarded_subExprs extras rules r.expr true (hG r hr) x hx
    split
    · rename_i lhs rhs
      simp only [Guarded, Bool.and_eq_true] at hgx
      have hl := hgx.1.1
      have key : ∀ node, Lead rules node = true →
          (if isNonFailing rules (fuelFor rules node) node [] = true then some (Err.choiceUnreachable r.name) else none) = none := by
        intro node hn
        rw [lead_not_nonFailing rules _ _ _ hn]
        rfl
      refine key _ ?_
      split
      · simp only [Lead, Bool.and_eq_true] at hl; exact hl.2
      · exact hl
    · rfl
  have hws : validateWsComment rules = [] := by
    unfold validateWsComment
    rw [List.filterMap_eq_nil_iff]
    intro r hr
    split
    · rename_i hn
      have hl := hW r hr hn
      rw [lead_not_nonFailing rules _ _ _ hl, lead_not_nonProgressing rules _ _ _ hl]
      rfl
    · rfl
  have hlr : leftRecursion extras rules = [] := by
    unfold leftRecursion
    rw [List.filterMap_eq_nil_iff]
    intro r hr
    have key : ∀ (F : Nat) (b : Bool), checkExpr extras rules F r.expr [(r.name, skipsInside rules r.name b)]
        (skipsInside rules r.name b) = false := by
      intro F b
      refine guarded_checkExpr extras rules hG F r.expr _ _ ?_ ?_ (hG r hr)
      · intro k hk
        simp only [List.mem_singleton] at hk
        subst hk
        exact lookup_isSome_of_mem hr
      · intro hsk
        simp only [List.head?_cons]
        constructor <;>
        · intro heq
          simp only [Option.some.injEq, Prod.mk.injEq] at heq
          rw [heq.2] at hsk
          cases hsk
    simp only [key]
    rfl
  unfold validateAst
  rw [hrep, hch, hws, hlr, ht]
  rfl

/-- non-vacuity: a recursive, strictly guarded grammar with implicit whitespace, accepted, stack-free. -/
def exRules : List Rule :=
  [⟨"WHITESPACE", .silent, .str [' ']⟩,
   ⟨"list", .normal, .seq (.str ['[']) (.seq (.opt (.seq (.ident "item") (.rep (.seq (.str [',']) (.ident "item"))))) (.str [']']))⟩,
   ⟨"item", .normal, .choice (.repOnce (.ident "ASCII_DIGIT")) (.seq (.str ['(']) (.seq (.ident "list") (.str [')'])))⟩]

example : validateAst false exRules = [] ∧ (∀ r ∈ exRules, StackFree r.expr = true) ∧
    (∀ r ∈ exRules, Guarded exRules true r.expr = true) := by
  decide

/-- … and the soundness theorem applies to it: parsing from `list` terminates on every input. -/
theorem exRules_terminates (uni : String → Option CharSet) (input : Str) :
    ∃ fuel, meaning exRules false uni fuel "list" input ≠ .fuel :=
  validator_sound_meaning false exRules (by decide) (by decide) (fun _ => by decide) uni "list" input

/-- a `!{…}` rule reachable from `WHITESPACE` (a comment with skipping inside it) that is fine:
`WHITESPACE = _{ " " | c }   c = !{ "/*" ~ "x"* ~ "*/" }   main = { c* }`. -/
def exWsNonAtomic : List Rule :=
  [⟨"WHITESPACE", .silent, .choice (.str [' ']) (.ident "c")⟩,
   ⟨"c", .nonAtomic, .seq (.str ['/', '*']) (.seq (.rep (.str ['x'])) (.str ['*', '/']))⟩,
   ⟨"main", .normal, .rep (.ident "c")⟩]

theorem exWsNonAtomic_terminates (extras : Bool) (uni : String → Option CharSet) (input : Str) :
    validateAst extras exWsNonAtomic = [] ∧ ∃ fuel, meaning exWsNonAtomic extras uni fuel "main" input ≠ .fuel :=
  ⟨by revert extras; decide,
   validator_sound_meaning extras exWsNonAtomic (by decide) (by revert extras; decide) (fun _ => by decide) uni "main" input⟩

end PestModel.C06
