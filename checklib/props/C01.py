"""C01 — parsing conforms to the documented PEG semantics of the grammar language."""
from props.common import *
from props.vmcommon import generated_leg
import binascii

MODULE = ["PestModel.Thm.C01", "PestModel.Thm.EndToEnd", "PestModel.Thm.TextToParse"]
DRV, MODE = "drv_sem", "grammar"
LISTER_ID = "C05-lister-not-preserving"
WSLEAK_ID = "C01-whitespace-stack-leak"
TAG_ID = "C01-tag-lands-on-previous-pair"


def strip_tags(forest):
    """`(rule start end tag …)` with every tag replaced by `_`"""
    import re
    return re.sub(r"\((\S+) (\d+) (\d+) [0-9a-f_]+", r"(\1 \2 \3 _", forest)


def ws_modifies_stack(op):
    """the grammar's WHITESPACE or COMMENT rule contains a stack operation"""
    import re
    for m in re.finditer(r"\(rule (WHITESPACE|COMMENT) \w ", op):
        depth, k = 1, m.end()
        while k < len(op) and depth > 0:
            depth += (op[k] == "(") - (op[k] == ")"); k += 1
        body = op[m.end():k]
        if re.search(r"\(id (POP|POP_ALL|DROP|PEEK|PEEK_ALL)\)|\(push |\(pushlit |\(peekslice ", body):
            return True
    return False


def split_case(op, j):
    head, _, tail = op.rpartition(")")
    parts = tail.split()
    return f"{head}) {parts[0]} {parts[1 + j]}"


def run(ctx):
    frag, problems = proof_leg(ctx, MODULE)
    allcs, stats, found_input = [], {}, False
    lister_known = ctx.match_known(lambda k: k["id"] == LISTER_ID) or \
        next((k for k in load_known() if k.get("id") == LISTER_ID and k.get("status") == "known"), None)
    tag_known = next((k for k in load_known() if k.get("id") == TAG_ID and k.get("status") == "known"), None)
    wsleak_known = next((k for k in load_known() if k.get("id") == WSLEAK_ID and k.get("status") == "known"), None)
    for fs in ("default", "extras"):
        ok, out, bindir, _ = cargo_build(fs, [DRV])
        if not ok:
            ctx.violation({"obligation": f"harness does not build against /repo (features {fs})", "log": out[-3000:]}, no_input=True)
            continue
        drv = os.path.join(bindir, DRV)
        cs = run_corpus_and_gen(ctx, drv, MODE, [("gen-" + fs, ["gen", ctx.tier, str(ctx.seed)])]) if fs == "default" else \
            [correspond("gen-" + fs, drv, ["gen", ctx.tier, str(ctx.seed)], MODE, os.path.join(ctx.rundir, "gen-" + fs))]
        for c in cs:
            allcs.append(c)
            if c.error:
                ctx.violation({"correspondence": c.name, "error": c.error}, no_input=True)
                continue
            stats[c.name] = c.stats
            unlisted = []
            oracle = {i: v for (i, op, imp, v) in c.oracle_fail}
            for (i, op, imp, mod) in c.mismatch:
                a, b = imp.split(" | "), mod.split(" | ")
                nolist = {}
                for item in oracle.get(i, "").split()[1:]:
                    k, _, h = item.partition("=")
                    try:
                        nolist[int(k)] = binascii.unhexlify(h).decode()
                    except Exception:
                        pass
                if len(a) != len(b):
                    unlisted.append((op, imp[:300], mod[:300])); continue
                for j, (x, y) in enumerate(zip(a, b)):
                    if x != y:
                        # the disagreement disappears when the `list` pass is left out (hook H2): the lister finding
                        tagshape = bool(tag_known) and ("(tag (opt" in op or "(tag (rep" in op)
                        if tagshape and x != y and nolist.get(j) is not None and nolist.get(j) != y and strip_tags(nolist.get(j)) == strip_tags(y) and lister_known:
                            # both recorded findings at once: without the `list` pass the result is the reference's up to the tags
                            ctx.known_finding(TAG_ID, "with grammar-extras a tag on an expression that emitted no pair lands on the previous pair (tag_node tags the last token of the queue): x = { \"a\" }  y = { \"b\" }  r = { x ~ #t = y? } on \"a\" tags the pair of x")
                            ctx.known_finding(LISTER_ID, "optimizer `list` pass rewrites (a ~ b)* ~ a into a ~ (b ~ a)*, which changes the language (e.g. accepts a prefix of \"abab\"); Vm::parse then differs from the documented semantics")
                        elif tagshape and strip_tags(x) == strip_tags(y):
                            # same pairs and spans, only the tags differ, in a grammar that tags an optional / repeated expression
                            ctx.known_finding(TAG_ID, "with grammar-extras a tag on an expression that emitted no pair lands on the previous pair (tag_node tags the last token of the queue): x = { \"a\" }  y = { \"b\" }  r = { x ~ #t = y? } on \"a\" tags the pair of x")
                        elif wsleak_known and ws_modifies_stack(op):
                            ctx.known_finding(WSLEAK_ID, "a WHITESPACE/COMMENT rule that pops the stack and then fails leaves the stack popped (implicit skips are not wrapped by the restorer): WHITESPACE = _{ POP }, r = { PUSH(\"a\") ~ \"b\" ~ PEEK } panics on \"aba\"")
                        elif lister_known and nolist.get(j) == y:
                            ctx.known_finding(LISTER_ID, "optimizer `list` pass rewrites (a ~ b)* ~ a into a ~ (b ~ a)*, which changes the language (e.g. accepts a prefix of \"abab\"); Vm::parse then differs from the documented semantics")
                        else:
                            unlisted.append((split_case(op, j), x, y))
            if unlisted:
                case, imp, mod = min(unlisted, key=lambda t: (len(t[0]), t[0]))
                ctx.violation({"kind": "Vm::parse over optimize(grammar) disagrees with the reference denotation of the documented semantics (success / pairs / empty-stack panic)",
                               "features": fs, "case": case, "impl": imp, "reference": mod, "failing_inputs_in_run": len(unlisted)})
                found_input = True
    # the parser pest_generator emits: same success / pairs / panic as the VM (which the legs above hold against the reference)
    nrep, gen_stats = generated_leg(ctx, lambda g, v: not (g.startswith("err") and v.startswith("err")))
    found_input = found_input or nrep > 0
    if problems and not found_input:
        ctx.violation({"obligation": MODULE, "problems": problems}, no_input=True)
    cov = dict(frag)
    g = stats.get("gen-default", {})
    cov.update({
        "trusted_base": TRUSTED_COMMON + ["hook H2 (optimize_without_list) used only to classify the lister finding"],
        "evaluations": sum(s.get("evaluations", 0) for s in stats.values()),
        "distinct_nontrivial": sum(s.get("distinct_nontrivial", 0) for s in stats.values()),
        "rule": "seeded random guarded grammars (1-5 rules, every operator incl. bounded repetitions, all five modifiers, WHITESPACE/COMMENT of every modifier present or absent, ASCII built-ins, SOI/EOI, PUSH/POP/PEEK/DROP/PEEK_ALL/POP_ALL/PEEK[..], the skip idiom, the lister pattern, user rules named like non-keyword built-ins; with grammar-extras also PUSH_LITERAL, e+ as RepOnce and tags on rule references) given to pest_meta::optimizer::optimize and pest_vm::Vm directly as ast::Rule values; for up to 3 start rules per grammar ALL strings of <= 3 (quick) / 5 (thorough) characters over the grammar's alphabet plus a foreign character, plus 20 longer random strings; non-trivial = distinct (grammar, rule, input) that either succeed with at least one pair or fail on a non-empty input",
        "exhaustive": True,
        "exhaustive_scope": f"per grammar and start rule: all strings up to {g.get('max_exhaustive_input_len')} characters over <= 6 symbols",
        "traces_validated_against_impl": sum(s.get("evaluations", 0) for s in stats.values()),
        "samples": [x[:300] for x in g.get("samples", [])][:3],
        "distribution": dict({k: {kk: vv for kk, vv in v.items() if kk != "samples"} for k, v in stats.items()}, generated_parser=gen_stats),
        "mismatching_lines": sum(len(c.mismatch) for c in allcs),
    })
    ctx.evidence(level_of(ctx.prop), cov, [
        "the reference denotation (PestModel.Ref) is a transcription of the crate documentation plus the interpretation decisions of DESIGN §10; bounded repetitions and (without grammar-extras) e+ mean their unrolled forms",
        "grammars are generated guarded (progress-or-fail repetition bodies, no left recursion) so that every parse terminates; Unicode property built-ins are covered by C16, tags on optional/repeated expressions are outside the generator's domain",
        "the meta-parser is not on this path (abstract grammars are handed to optimize/Vm directly); C07/C14 cover it",
    ])


def replay(ctx, path):
    r = json.load(open(path))
    if r.get("leg") == "generated":
        return replay_generic(ctx, path, "drv_gen", MODE, featureset=("extras" if r.get("features") == "extras" else "default"))
    return replay_generic(ctx, path, DRV, MODE, featureset=("extras" if r.get("features") == "extras" else "default"))
