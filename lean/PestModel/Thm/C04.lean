import PestModel.Model.Views
/-! # C04 — placeholder until the proofs land. -/
namespace PestModel.C04
open PestModel.Views

theorem smoke : (build [.node 1 0 3 none [.node 2 1 2 none []]]).length = 4 := by decide

end PestModel.C04
