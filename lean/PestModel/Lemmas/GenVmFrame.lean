import PestModel.Lemmas.GenVmBase
/-! C02, part 2: the pieces of the interpreter commute with replacing the stack (`ws`), and the
continuations `K` of the bracketing combinators respect `SEq` (`KFrame`). -/
namespace PestModel.GenVm
open PestModel.PS PestModel.Stack
open PestModel.LineCol (Str isBoundary slice?)

theorem SEq0.exists {s1 s2 : PState} (h : SEq0 s1 s2) : ∃ st, s2 = ws st s1 ∧ s1.stack.cache = st.cache :=
  ⟨s2.stack, h.1, h.2⟩

/-! ### stack pieces -/

theorem checkpoint_eq (s : PState) :
    checkpoint s = ws { s.stack with lengths := (s.stack.cache.length, s.stack.cache.length) :: s.stack.lengths } s :=
  rfl

theorem good_checkpoint {s : PState} (h : Good s) : Good (checkpoint s) :=
  ⟨⟨h.wf.1, (snapshot_spec s.stack h.wf.2).1⟩, h.calls⟩

theorem checkpoint_saved {s : PState} (h : Good s) :
    (abs (checkpoint s).stack).saved = s.stack.cache :: (abs s.stack).saved :=
  (snapshot_spec s.stack h.wf.2).2

theorem seq_checkpoint {s1 s2 : PState} (h : SEq s1 s2) : SEq (checkpoint s1) (checkpoint s2) := by
  obtain ⟨st, rfl, hc⟩ := h.core.exists
  refine ⟨⟨rfl, ?_⟩, good_checkpoint h.g1, good_checkpoint h.g2⟩
  exact hc

theorem seq_checkpoint_left {s : PState} (h : Good s) : SEq (checkpoint s) s :=
  ⟨⟨rfl, rfl⟩, good_checkpoint h, h⟩

theorem checkpointOk_good {ns : PState} (h : StkInv ns.stack) :
    ∃ st, checkpointOk ns = some (ws st ns) ∧ st.cache = ns.stack.cache ∧ StkInv st ∧
      (abs st).saved = (abs ns.stack).saved.tail := by
  obtain ⟨st, h1, h2, h3, h4⟩ := clearSnapshot_spec ns.stack h
  exact ⟨st, by simp [checkpointOk, h1, ws], h3, h2, h4⟩

theorem restoreStack_top {ns : PState} (h : StkInv ns.stack) {c : List Str} {cs : List (List Str)}
    (hs : (abs ns.stack).saved = c :: cs) :
    ∃ st, restoreStack ns = some (ws st ns) ∧ st.cache = c ∧ StkInv st ∧ (abs st).saved = cs := by
  obtain ⟨st, h1, h2, h3⟩ := restore_spec ns.stack h
  obtain ⟨h4, h5⟩ := h3 c cs hs
  exact ⟨st, by simp [restoreStack, h1, ws], h4, h2, h5⟩

/-! ### `K` respects `SEq` -/

/-- the continuation `K` (after the body ran from `pre s`) maps related states to related outcomes. -/
structure KFrame (pre : PState → PState) (K : PState → Out → Out) : Prop where
  hpre : ∀ s1 s2, SEq s1 s2 → SEq (pre s1) (pre s2)
  hok : ∀ s1 s2 ns1 ns2, SEq s1 s2 → Rel (pre s1) ns1 → Rel (pre s2) ns2 → SEq ns1 ns2 →
    OEq0F (K s1 (.ok ns1)) (K s2 (.ok ns2))
  herr : ∀ s1 s2 ns1 ns2, SEq s1 s2 → Rel (pre s1) ns1 → Rel (pre s2) ns2 → SEq ns1 ns2 →
    OEq0F (K s1 (.err ns1)) (K s2 (.err ns2))

theorem frame_clear {ns1 ns2 : PState} (hn : SEq ns1 ns2) :
    OEq0F (match checkpointOk ns1 with | some ns => Out.ok ns | none => .panic)
      (match checkpointOk ns2 with | some ns => Out.ok ns | none => .panic) := by
  obtain ⟨c1, h1, e1, -⟩ := checkpointOk_good hn.g1.wf.2
  obtain ⟨c2, h2, e2, -⟩ := checkpointOk_good hn.g2.wf.2
  obtain ⟨b, rfl, hc⟩ := hn.core.exists
  rw [h1, h2]
  exact ⟨rfl, by rw [ws_stack, ws_stack, e1, e2]; exact hc⟩

/-- restoring to the snapshot taken at `checkpoint s`. -/
theorem frame_restore {s1 s2 x1 x2 : PState} (hs : SEq s1 s2) (hx : SEq0 x1 x2)
    (i1 : StkInv x1.stack) (i2 : StkInv x2.stack)
    (f1 : ∃ cs, (abs x1.stack).saved = s1.stack.cache :: cs)
    (f2 : ∃ cs, (abs x2.stack).saved = s2.stack.cache :: cs) :
    OEq0F (match restoreStack x1 with | some ns => Out.err ns | none => .panic)
      (match restoreStack x2 with | some ns => Out.err ns | none => .panic) := by
  obtain ⟨cs1, f1⟩ := f1
  obtain ⟨cs2, f2⟩ := f2
  obtain ⟨c1, h1, e1, -⟩ := restoreStack_top i1 f1
  obtain ⟨c2, h2, e2, -⟩ := restoreStack_top i2 f2
  obtain ⟨b, rfl, hc⟩ := hx.exists
  rw [h1, h2]
  exact ⟨rfl, by rw [ws_stack, ws_stack, e1, e2]; exact hs.core.2⟩

theorem rel_checkpoint_saved {s ns : PState} (hg : Good s) (r : Rel (checkpoint s) ns) :
    StkInv ns.stack ∧ ∃ cs, (abs ns.stack).saved = s.stack.cache :: cs := by
  obtain ⟨i, e⟩ := r.stk (good_checkpoint hg).wf.2
  exact ⟨i, _, e.trans (checkpoint_saved hg)⟩

theorem seqK_frame : KFrame checkpoint seqK where
  hpre := fun _ _ h => seq_checkpoint h
  hok := fun s1 s2 ns1 ns2 _ _ _ hn => frame_clear hn
  herr := fun s1 s2 ns1 ns2 hs r1 r2 hn => by
    obtain ⟨a, rfl, -⟩ := hs.core.exists
    obtain ⟨b, rfl, hc⟩ := hn.core.exists
    obtain ⟨i1, f1⟩ := rel_checkpoint_saved hs.g1 r1
    obtain ⟨i2, f2⟩ := rel_checkpoint_saved hs.g2 r2
    exact frame_restore (s1 := s1) (s2 := ws a s1) (x1 := seqErrState s1 ns1)
      (x2 := seqErrState (ws a s1) (ws b ns1)) hs ⟨rfl, hc⟩ i1 i2 f1 f2

theorem roeK_frame : KFrame checkpoint roeK where
  hpre := fun _ _ h => seq_checkpoint h
  hok := fun s1 s2 ns1 ns2 _ _ _ hn => frame_clear hn
  herr := fun s1 s2 ns1 ns2 hs r1 r2 hn => by
    obtain ⟨i1, f1⟩ := rel_checkpoint_saved hs.g1 r1
    obtain ⟨i2, f2⟩ := rel_checkpoint_saved hs.g2 r2
    exact frame_restore hs hn.core i1 i2 f1 f2

theorem optK_frame : KFrame id optK where
  hpre := fun _ _ h => h
  hok := fun _ _ _ _ _ _ _ hn => hn.core
  herr := fun _ _ _ _ _ _ _ hn => hn.core

theorem idK_frame : KFrame id idK where
  hpre := fun _ _ h => h
  hok := fun _ _ _ _ _ _ _ hn => hn.core
  herr := fun _ _ _ _ _ _ _ hn => hn.core

theorem good_laMode {s : PState} (b : Bool) (h : Good s) :
    Good { s with lookahead := laMode b s.lookahead } := ⟨h.wf, h.calls⟩

theorem seq_laPre {s1 s2 : PState} (b : Bool) (h : SEq s1 s2) : SEq (laPre b s1) (laPre b s2) := by
  obtain ⟨st, rfl, hc⟩ := h.core.exists
  exact seq_checkpoint (s1 := { s1 with lookahead := laMode b s1.lookahead })
    (s2 := { ws st s1 with lookahead := laMode b s1.lookahead })
    ⟨⟨rfl, hc⟩, good_laMode b h.g1, good_laMode b h.g2⟩

theorem frame_laPost {b : Bool} {s1 s2 ns1 ns2 : PState} (hs : SEq s1 s2) (r1 : Rel (laPre b s1) ns1)
    (r2 : Rel (laPre b s2) ns2) (hn : SEq ns1 ns2) :
    ∃ x1 x2, laPost s1 ns1 = some x1 ∧ laPost s2 ns2 = some x2 ∧ SEq0 x1 x2 := by
  obtain ⟨i1, cs1, f1⟩ := rel_checkpoint_saved (good_laMode b hs.g1) r1
  obtain ⟨i2, cs2, f2⟩ := rel_checkpoint_saved (good_laMode b hs.g2) r2
  obtain ⟨c1, h1, e1, -⟩ := restoreStack_top (ns := { ns1 with pos := s1.pos, lookahead := s1.lookahead }) i1 f1
  obtain ⟨c2, h2, e2, -⟩ := restoreStack_top (ns := { ns2 with pos := s2.pos, lookahead := s2.lookahead }) i2 f2
  obtain ⟨a, rfl, ha⟩ := hs.core.exists
  obtain ⟨b', rfl, hc⟩ := hn.core.exists
  refine ⟨_, _, h1, h2, rfl, ?_⟩
  rw [ws_stack, ws_stack, e1, e2]; exact ha

theorem laK_frame (b : Bool) : KFrame (laPre b) (laK b) where
  hpre := fun _ _ h => seq_laPre b h
  hok := fun s1 s2 ns1 ns2 hs r1 r2 hn => by
    obtain ⟨x1, x2, h1, h2, hx⟩ := frame_laPost hs r1 r2 hn
    unfold laK; dsimp only; rw [h1, h2]
    cases b <;> exact hx
  herr := fun s1 s2 ns1 ns2 hs r1 r2 hn => by
    obtain ⟨x1, x2, h1, h2, hx⟩ := frame_laPost hs r1 r2 hn
    unfold laK; dsimp only; rw [h1, h2]
    cases b <;> exact hx

theorem pushK_frame : KFrame id pushK where
  hpre := fun _ _ h => h
  hok := fun s1 s2 ns1 ns2 hs _ _ hn => by
    obtain ⟨a, rfl, -⟩ := hs.core.exists
    obtain ⟨b, rfl, hc⟩ := hn.core.exists
    unfold pushK pushSpan; dsimp only
    show OEq0F (match slice? ns1.input s1.pos ns1.pos with | some str => _ | none => _)
      (match slice? ns1.input s1.pos ns1.pos with | some str => _ | none => _)
    cases slice? ns1.input s1.pos ns1.pos with
    | none => trivial
    | some str => exact ⟨rfl, by show str :: _ = str :: _; rw [hc]; rfl⟩
  herr := fun _ _ _ _ _ _ _ hn => hn.core

/-! ### continuations that do not look at the stack -/

theorem mapState_fix {X : Out} {st : Stk Str} (h : X = X.mapState (ws st)) {x : PState}
    (hx : X.state? = some x) : x.stack = st := by
  cases X with
  | ok y =>
    simp only [Out.state?, Option.some.injEq] at hx; subst hx
    simp only [mapState_ok, Out.ok.injEq] at h
    rw [h]; rfl
  | err y =>
    simp only [Out.state?, Option.some.injEq] at hx; subst hx
    simp only [mapState_err, Out.err.injEq] at h
    rw [h]; rfl
  | panic => simp [Out.state?] at hx
  | fuel => simp [Out.state?] at hx

theorem oeq0_mapState {X : Out} {b : Stk Str} (h : ∀ x, X.state? = some x → x.stack.cache = b.cache) :
    OEq0F X (X.mapState (ws b)) := by
  cases X with
  | ok y => exact ⟨rfl, h y rfl⟩
  | err y => exact ⟨rfl, h y rfl⟩
  | panic => trivial
  | fuel => trivial

theorem kframe_comm {pre : PState → PState} {K : PState → Out → Out}
    (hpre : ∀ st s, pre (ws st s) = ws st (pre s))
    (hpreG : ∀ s, Good s → Good (pre s))
    (hKok : ∀ a b s1 ns, K (ws a s1) (.ok (ws b ns)) = (K s1 (.ok ns)).mapState (ws b))
    (hKerr : ∀ a b s1 ns, K (ws a s1) (.err (ws b ns)) = (K s1 (.err ns)).mapState (ws b)) :
    KFrame pre K where
  hpre := fun s1 s2 hs => by
    obtain ⟨a, rfl, ha⟩ := hs.core.exists
    have hstack : (pre s1).stack = s1.stack := by
      have := hpre s1.stack s1
      rw [ws_self] at this
      have h2 : (pre s1).stack = (ws s1.stack (pre s1)).stack := congrArg PState.stack this
      exact h2
    rw [hpre]
    exact ⟨⟨rfl, by rw [hstack]; exact ha⟩, hpreG _ hs.g1, by rw [← hpre]; exact hpreG _ hs.g2⟩
  hok := fun s1 s2 ns1 ns2 hs _ _ hn => by
    obtain ⟨a, rfl, -⟩ := hs.core.exists
    obtain ⟨b, rfl, hb⟩ := hn.core.exists
    rw [hKok]
    refine oeq0_mapState fun x hx => ?_
    have := hKok s1.stack ns1.stack s1 ns1
    rw [ws_self, ws_self] at this
    rw [mapState_fix this hx]; exact hb
  herr := fun s1 s2 ns1 ns2 hs _ _ hn => by
    obtain ⟨a, rfl, -⟩ := hs.core.exists
    obtain ⟨b, rfl, hb⟩ := hn.core.exists
    rw [hKerr]
    refine oeq0_mapState fun x hx => ?_
    have := hKerr s1.stack ns1.stack s1 ns1
    rw [ws_self, ws_self] at this
    rw [mapState_fix this hx]; exact hb

/-! ### commutation with `ws` -/

theorem atomPre_ws (a : Atomicity) (st : Stk Str) (s : PState) : atomPre a (ws st s) = ws st (atomPre a s) := by
  unfold atomPre ws; dsimp only; split <;> rfl

theorem atomPost_ws (a : Atomicity) (x y : Stk Str) (s1 ns : PState) :
    atomPost a (ws x s1) (ws y ns) = ws y (atomPost a s1 ns) := by
  unfold atomPost ws; dsimp only; split <;> rfl

theorem good_atomPre (a : Atomicity) {s : PState} (h : Good s) : Good (atomPre a s) := by
  unfold atomPre; split
  · exact ⟨h.wf, h.calls⟩
  · exact h

theorem atomK_frame (a : Atomicity) : KFrame (atomPre a) (atomK a) :=
  kframe_comm (atomPre_ws a) (fun _ => good_atomPre a)
    (fun x y s1 ns => by show Out.ok _ = _; rw [atomPost_ws]; rfl)
    (fun x y s1 ns => by show Out.err _ = _; rw [atomPost_ws]; rfl)

theorem rulePre_ws (st : Stk Str) (s : PState) : rulePre (ws st s) = ws st (rulePre s) := by
  unfold rulePre ws; dsimp only; split <;> rfl

theorem good_rulePre {s : PState} (h : Good s) : Good (rulePre s) :=
  h.of_rel (rulePre_rel s) ((rulePre_core s).1.trans h.calls)

theorem track_ws (st : Stk Str) (s : PState) (a b c d e : Nat) :
    track (ws st s) a b c d e = ws st (track s a b c d e) := by
  unfold track attemptsAt ws
  dsimp only
  repeat' split
  all_goals rfl

theorem ruleTrack_ws (x y : Stk Str) (s1 : PState) (r : Nat) (ns : PState) :
    ruleTrack (ws x s1) r (ws y ns) = ws y (ruleTrack s1 r ns) := by
  unfold ruleTrack
  rw [rulePre_ws]
  exact track_ws y ns _ _ _ _ _

theorem ruleTrackIf_ws (x y : Stk Str) (s1 : PState) (r : Nat) (ns : PState) :
    ruleTrackIf (ws x s1) r (ws y ns) = ws y (ruleTrackIf s1 r ns) := by
  unfold ruleTrackIf
  rw [ruleTrack_ws]
  show (if ns.lookahead = .negative then _ else _) = _
  split <;> rfl

theorem ruleEmit_ws (x y : Stk Str) (s1 : PState) (r : Nat) (ns : PState) :
    ruleEmit (ws x s1) r (ws y ns) = (ruleEmit s1 r ns).map (ws y) := by
  unfold ruleEmit ws
  dsimp only
  repeat' split
  all_goals simp_all

theorem tryAddRuleToStack_ws (y : Stk Str) (s : PState) (r a b : Nat) :
    tryAddRuleToStack (ws y s) r a b = (tryAddRuleToStack s r a b).map (ws y) := by
  unfold tryAddRuleToStack ws
  dsimp only
  repeat' split
  all_goals simp_all

theorem ruleAdd_ws (x y : Stk Str) (s1 : PState) (r : Nat) (ns : PState) :
    ruleAdd (ws x s1) r (ws y ns) = (ruleAdd s1 r ns).map (ws y) := by
  unfold ruleAdd
  rw [rulePre_ws]
  exact tryAddRuleToStack_ws y ns r _ _

theorem ruleFinish_ws (x y : Stk Str) (s1 : PState) (r : Nat) (ns : PState) :
    ruleFinish (ws x s1) r (ws y ns) = (ruleFinish s1 r ns).mapState (ws y) := by
  unfold ruleFinish
  rw [ruleAdd_ws]
  show (if ns.pa.enabled = true then _ else _) = _
  split
  · cases ruleAdd s1 r ns <;> rfl
  · rfl

theorem ruleOkPost_ws (x y : Stk Str) (s1 : PState) (r : Nat) (ns : PState) :
    ruleOkPost (ws x s1) r (ws y ns) = (ruleOkPost s1 r ns).mapState (ws y) := by
  unfold ruleOkPost
  rw [ruleTrackIf_ws, ruleEmit_ws]
  cases ruleEmit s1 r (ruleTrackIf s1 r ns) with
  | none => rfl
  | some z => exact ruleFinish_ws x y s1 r z

theorem ruleErrAdd_ws (x y : Stk Str) (s1 : PState) (r : Nat) (ns : PState) :
    ruleErrAdd (ws x s1) r (ws y ns) = (ruleErrAdd s1 r ns).map (ws y) := by
  unfold ruleErrAdd
  rw [ruleTrack_ws, ruleAdd_ws]
  show (if ns.lookahead ≠ .negative then
      (if (ruleTrack s1 r ns).pa.enabled = true then _ else _) else _) = _
  split
  · split <;> rfl
  · rfl

theorem ruleErrTrunc_ws (x y : Stk Str) (s1 ns : PState) :
    ruleErrTrunc (ws x s1) (ws y ns) = ws y (ruleErrTrunc s1 ns) := by
  unfold ruleErrTrunc ws; dsimp only; split <;> rfl

theorem ruleErrPost_ws (x y : Stk Str) (s1 : PState) (r : Nat) (ns : PState) :
    ruleErrPost (ws x s1) r (ws y ns) = (ruleErrPost s1 r ns).mapState (ws y) := by
  unfold ruleErrPost
  rw [ruleErrAdd_ws]
  cases ruleErrAdd s1 r ns with
  | none => rfl
  | some z =>
    show Out.err (ruleErrTrunc (ws x s1) (ws y z)) = _
    rw [ruleErrTrunc_ws]; rfl

theorem ruleK_frame (r : Nat) : KFrame rulePre (ruleK r) :=
  kframe_comm rulePre_ws (fun _ => good_rulePre)
    (fun x y s1 ns => ruleOkPost_ws x y s1 r ns)
    (fun x y s1 ns => ruleErrPost_ws x y s1 r ns)

/-! ### leaves -/

theorem handleToken_ws (st : Stk Str) (s : PState) (a : Nat) (t : PTok) (b : Bool) :
    handleToken (ws st s) a t b = ws st (handleToken s a t b) := by
  unfold handleToken ws
  dsimp only
  repeat' split
  all_goals rfl

theorem terminal_ws (st : Stk Str) (s : PState) (r : Option (Bool × Nat)) (tok : Option PTok) :
    terminal (ws st s) r tok = (terminal s r tok).mapState (ws st) := by
  unfold terminal
  cases r with
  | none => rfl
  | some x =>
    obtain ⟨succ, pos'⟩ := x
    cases tok with
    | none => dsimp only; split <;> rfl
    | some t =>
      dsimp only
      have := handleToken_ws st { s with pos := pos' } s.pos t succ
      split <;> simp only [Out.mapState] <;> rw [← this] <;> rfl

/-- leaves that do not look at the stack. -/
def Prog.plainLeaf : Prog → Bool
  | .matchString _ | .matchInsensitive _ | .matchRange _ _ | .matchCharBy _ | .skip _ | .skipUntil _
  | .startOfInput | .endOfInput | .tagNode _ | .ok | .fail => true
  | _ => false

theorem leaf_ws (cfg : Cfg) (fuel : Nat) (p : Prog) (hp : Prog.plainLeaf p = true) (st : Stk Str) (s : PState) :
    run cfg (fuel+1) p (ws st s) = (run cfg (fuel+1) p s).mapState (ws st) := by
  cases p <;> simp only [Prog.plainLeaf] at hp <;> try (exact absurd hp (by decide))
  all_goals rw [PS.run, PS.run]
  case matchString str => exact terminal_ws st s _ _
  case matchInsensitive str => exact terminal_ws st s _ _
  case matchRange a b => exact terminal_ws st s _ _
  case matchCharBy cs => exact terminal_ws st s _ _
  case skip n => exact terminal_ws st s _ _
  all_goals unfold ws
  all_goals (try dsimp only)
  all_goals (repeat' split)
  all_goals first
    | rfl
    | simp_all

end PestModel.GenVm
