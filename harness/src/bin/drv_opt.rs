//! C05: each optimizer pass and the pipeline — real output vs the Lean pass (`O` lines, syntactic),
//! and meaning preservation of the pass on the reference denotation (`E` lines).
use pest_meta::ast::{Expr, Rule, RuleType};
use pest_meta::optimizer::verif as passes;
use std::collections::BTreeMap;
use verif_harness::gram::*;
use verif_harness::prog::SExp;
use verif_harness::*;

const EXTRAS: bool = cfg!(feature = "extras");
const PASSES: &[&str] = &["rotate", "skip", "unroll", "concat", "factor", "list", "optimize", "optnolist"];

fn apply(pass: &str, rules: &[Rule]) -> Result<String, String> {
    let rs = rules.to_vec();
    catch(|| match pass {
        "rotate" => show_rules(&rs.into_iter().map(passes::rotate).collect::<Vec<_>>()),
        "skip" => { let all = rs.clone(); show_rules(&rs.into_iter().map(|r| passes::skip(r, &all)).collect::<Vec<_>>()) }
        "unroll" => show_rules(&rs.into_iter().map(passes::unroll).collect::<Vec<_>>()),
        "concat" => show_rules(&rs.into_iter().map(passes::concatenate).collect::<Vec<_>>()),
        "factor" => show_rules(&rs.into_iter().map(passes::factor).collect::<Vec<_>>()),
        "list" => show_rules(&rs.into_iter().map(passes::list).collect::<Vec<_>>()),
        "optimize" => show_orules(&pest_meta::optimizer::optimize(rs)),
        "optnolist" => show_orules(&passes::optimize_without_list(rs)),
        _ => "bad-op".into(),
    })
}

fn eval_line(l: &str, stats: &mut BTreeMap<String, u64>) -> (String, String) {
    let bad = || ("bad-op".to_string(), "ok".to_string());
    let mut it = l.splitn(4, ' ');
    let kind = it.next().unwrap_or("");
    let _ex = it.next();
    let pass = match it.next() { Some(p) => p, None => return bad() };
    let top = match it.next().and_then(parse_sexps) { Some(t) if !t.is_empty() => t, _ => return bad() };
    let rules = match rules_of(&top[0]) { Some(r) => r, None => return bad() };
    match kind {
        "O" => { let r = apply(pass, &rules); *stats.entry(format!("O_{}_{}", pass, if r.is_ok() { "ok" } else { "panic" })).or_default() += 1;
            if let Ok(s) = &r { if *s != (if pass.starts_with("opt") { String::new() } else { show_rules(&rules) }) && !pass.starts_with("opt") { *stats.entry(format!("O_{}_rewrote", pass)).or_default() += 1; } }
            (r.unwrap_or("panic".into()), "ok".into()) }
        // the implementation's claim is that the pass preserves meaning: "same"
        "E" => { if let SExp::Atom(_) = top.get(1).unwrap_or(&SExp::List(vec![])) { *stats.entry(format!("E_{}", pass)).or_default() += 1; ("same".into(), "ok".into()) } else { bad() } }
        _ => bad(),
    }
}

// extra expression shapes aimed at the rewrites
fn bx(e: Expr) -> Box<Expr> { Box::new(e) }
fn s(x: &str) -> Expr { Expr::Str(x.into()) }
fn shaped(rng: &mut Rng, names: &[String]) -> Expr {
    let id = |rng: &mut Rng| Expr::Ident(rng.pick(names).clone());
    match rng.below(20) {
        // near misses of the rewrite patterns: the same bodies under `+` / `{1,}` (must stay as they are)
        16 => Expr::RepOnce(bx(Expr::Seq(bx(Expr::NegPred(bx(Expr::Choice(bx(s("a")), bx(s("b")))))), bx(Expr::Ident("ANY".into()))))),
        17 => Expr::RepMin(bx(Expr::Seq(bx(Expr::NegPred(bx(s("a")))), bx(Expr::Ident("ANY".into())))), 1),
        18 => Expr::RepOnce(bx(Expr::Seq(bx(Expr::NegPred(bx(id(rng)))), bx(Expr::Ident("ANY".into()))))),
        19 => Expr::Seq(bx(Expr::RepOnce(bx(Expr::Seq(bx(s("a")), bx(s("b")))))), bx(s("a"))),
        0 => Expr::Seq(bx(Expr::Seq(bx(Expr::Seq(bx(s("a")), bx(s("b")))), bx(id(rng)))), bx(s("c"))),
        1 => Expr::Choice(bx(Expr::Choice(bx(Expr::Choice(bx(s("a")), bx(s("b")))), bx(id(rng)))), bx(s("c"))),
        2 => Expr::Rep(bx(Expr::Seq(bx(Expr::NegPred(bx(Expr::Choice(bx(s("a")), bx(Expr::Choice(bx(id(rng)), bx(s("b")))))))), bx(Expr::Ident("ANY".into()))))),
        3 => Expr::Rep(bx(Expr::Seq(bx(Expr::NegPred(bx(id(rng)))), bx(Expr::Ident("ANY".into()))))),
        4 => Expr::RepExact(bx(id(rng)), rng.below(4) as u32),
        5 => Expr::RepMin(bx(s("a")), rng.below(4) as u32),
        6 => Expr::RepMax(bx(Expr::Seq(bx(s("a")), bx(s("b")))), rng.below(4) as u32),
        7 => { let m = rng.below(4) as u32; let n = rng.below(4) as u32; Expr::RepMinMax(bx(s("a")), m, n) }
        8 => Expr::Seq(bx(s("a")), bx(Expr::Seq(bx(s("b")), bx(Expr::Seq(bx(Expr::Insens("c".into())), bx(Expr::Insens("d".into()))))))),
        9 => Expr::Choice(bx(Expr::Seq(bx(s("a")), bx(s("b")))), bx(Expr::Seq(bx(s("a")), bx(s("c"))))),
        10 => Expr::Choice(bx(Expr::Seq(bx(id(rng)), bx(s("b")))), bx(id(rng))),
        11 => Expr::Choice(bx(s("a")), bx(Expr::Seq(bx(s("a")), bx(s("c"))))),
        12 => Expr::Seq(bx(Expr::Rep(bx(Expr::Seq(bx(s("a")), bx(s("b")))))), bx(s("a"))),
        13 => Expr::Opt(bx(Expr::Ident(rng.pick(&["POP", "POP_ALL", "DROP", "PEEK", "PEEK_ALL"]).to_string()))),
        14 => Expr::Choice(bx(Expr::Push(bx(s("a")))), bx(id(rng))),
        _ => Expr::Rep(bx(Expr::Seq(bx(id(rng)), bx(Expr::RepOnce(bx(s("x"))))))),
    }
}

const TAG_SHAPES: bool = false;
fn main() {
    quiet_panics();
    let mut out = Out::new();
    let mut stats: BTreeMap<String, u64> = BTreeMap::new();
    match cli() {
        Cmd::Run { ops, out: dir } => { for l in &ops { let (i, v) = eval_line(l, &mut stats); out.push(l.clone(), i, v); } out.write(&dir, "{}"); }
        Cmd::Gen { thorough, seed, out: dir } => {
            let ngram = if thorough { 4000 } else { 500 };
            let nsem = if thorough { 600 } else { 80 };
            let len = if thorough { 5 } else { 3 };
            let mut rng = Rng::new(seed ^ 0xC05 ^ if EXTRAS { 0xE0 } else { 0 });
            let mut distinct = std::collections::HashSet::new();
            // the skipper's bound on its search list (MAX_SKIP_STRINGS): a chain of rules that mention the next one twice, whose
            // inlined list has 2^n strings, and a flat choice of n distinct terminators, on both sides of the bound
            {
                let unit = |inner: Expr| Expr::Rep(bx(Expr::Seq(bx(Expr::NegPred(bx(inner))), bx(Expr::Ident("ANY".into())))));
                let mut gs: Vec<Vec<Rule>> = vec![];
                for n in [3usize, 10, 11, 13] {
                    let mut rules = vec![Rule { name: "x".into(), ty: RuleType::Atomic, expr: unit(Expr::Ident("c0".into())) }];
                    for i in 0..n { rules.push(Rule { name: format!("c{}", i), ty: RuleType::Normal, expr: Expr::Choice(bx(Expr::Ident(format!("c{}", i + 1))), bx(Expr::Ident(format!("c{}", i + 1)))) }); }
                    rules.push(Rule { name: format!("c{}", n), ty: RuleType::Normal, expr: s("a") });
                    gs.push(rules);
                }
                for n in [1023usize, 1024, 1025, 1030] {
                    let mut e = s(&format!("t{}", n - 1));
                    for i in (0..n - 1).rev() { e = Expr::Choice(bx(s(&format!("t{}", i))), bx(e)); }
                    gs.push(vec![Rule { name: "x".into(), ty: RuleType::Atomic, expr: unit(e) }]);
                }
                for rules in gs { let srules = show_rules(&rules); for p in ["skip", "optimize"] {
                    let l = format!("O {} {} {}", EXTRAS as u8, p, srules);
                    let (i, v) = eval_line(&l, &mut stats);
                    if i != srules && i != "panic" { distinct.insert(l.clone()); }
                    out.push(l, i, v); } }
            }
            for gi in 0..ngram {
                // syntactic: guarded grammars plus shaped / unguarded rules (with rule cycles, zero counts)
                let cfg = GenCfg { extras: EXTRAS, guarded: true, stack_ops: true, tags: EXTRAS && gi % 4 == 1, max_rules: 4, max_depth: 4, builtin_names: false, tag_shapes: TAG_SHAPES };
                let mut rules = if gi < 32 { gen_grammar_idiom(&mut rng, &cfg, gi) } else { gen_grammar(&mut rng, &cfg) };
                let names: Vec<String> = rules.iter().map(|r| r.name.clone()).collect();
                let k = rng.range(1, 3);
                for j in 0..k { let e = shaped(&mut rng, &names); let ty = *rng.pick(&[RuleType::Atomic, RuleType::Normal, RuleType::CompoundAtomic, RuleType::Silent]); rules.push(Rule { name: format!("s{}", j), ty, expr: e }); }
                if rng.chance(1, 3) { let i = rng.below(rules.len() as u64) as usize; let sh = shaped(&mut rng, &names); let old = std::mem::replace(&mut rules[i].expr, Expr::Str(String::new())); rules[i].expr = Expr::Seq(bx(old), bx(sh)); }
                let srules = show_rules(&rules);
                for p in PASSES {
                    let l = format!("O {} {} {}", EXTRAS as u8, p, srules);
                    let (i, v) = eval_line(&l, &mut stats);
                    if i != srules && i != "panic" { distinct.insert(l.clone()); }
                    out.push(l, i, v);
                }
            }
            for gi in 0..nsem {
                // semantic: guarded grammars only (denotation terminates), all inputs up to len
                let cfg = GenCfg { extras: EXTRAS, guarded: true, stack_ops: gi % 2 == 0, tags: false, max_rules: 4, max_depth: 4, builtin_names: false, tag_shapes: TAG_SHAPES };
                let mut rules = if gi < 32 { gen_grammar_idiom(&mut rng, &cfg, gi) } else { gen_grammar(&mut rng, &cfg) };
                // make sure the rewrites have something to do: sprinkle shaped sub-expressions that keep the grammar guarded
                if rng.chance(2, 3) { let e = match rng.below(8) { 6 => Expr::RepOnce(bx(Expr::Seq(bx(Expr::NegPred(bx(Expr::Choice(bx(s("a")), bx(s("b")))))), bx(Expr::Ident("ANY".into()))))), 7 => Expr::RepOnce(bx(Expr::Seq(bx(Expr::NegPred(bx(s("b")))), bx(Expr::Ident("ANY".into()))))), 0 => Expr::Seq(bx(Expr::Seq(bx(s("a")), bx(s("b")))), bx(s("c"))), 1 => Expr::Choice(bx(Expr::Seq(bx(s("a")), bx(s("b")))), bx(Expr::Seq(bx(s("a")), bx(s("c"))))),
                        2 => Expr::Choice(bx(Expr::Seq(bx(s("a")), bx(s("b")))), bx(s("a"))), 3 => Expr::Choice(bx(s("a")), bx(Expr::Seq(bx(s("a")), bx(s("c"))))),
                        4 => Expr::Rep(bx(Expr::Seq(bx(Expr::NegPred(bx(Expr::Choice(bx(s("a")), bx(s("b")))))), bx(Expr::Ident("ANY".into()))))), _ => Expr::Seq(bx(Expr::Rep(bx(Expr::Seq(bx(s("a")), bx(s("b")))))), bx(s("a"))) };
                    let ty = *rng.pick(&[RuleType::Atomic, RuleType::Normal, RuleType::CompoundAtomic]);
                    let old = std::mem::replace(&mut rules[0].expr, Expr::Str(String::new())); rules[0].expr = Expr::Seq(bx(e), bx(Expr::Opt(bx(old)))); rules[0].ty = ty; }
                let srules = show_rules(&rules);
                let alpha = alphabet(&rules);
                let inputs = all_inputs(&alpha[..alpha.len().min(5)], len);
                let ins = inputs.iter().map(|x| hexs(x)).collect::<Vec<_>>().join(" ");
                for p in PASSES {
                    let l = format!("E {} {} {} {} {}", EXTRAS as u8, p, srules, rules[0].name, ins);
                    let (i, v) = eval_line(&l, &mut stats);
                    out.push(l, i, v);
                }
            }
            let samples: Vec<String> = out.ops.iter().step_by((out.ops.len() / 4).max(1)).take(4).map(|s| if s.len() > 300 { format!("{}…", &s[..300]) } else { s.clone() }).collect();
            let stats_s = format!("{{\"evaluations\":{},\"distinct_nontrivial\":{},\"grammars_syntactic\":{},\"grammars_semantic\":{},\"semantic_input_len\":{},\"extras\":{},\"observed\":{:?},\"samples\":{:?}}}", out.ops.len(), distinct.len(), ngram, nsem, len, EXTRAS, stats, samples);
            out.write(&dir, &stats_s);
        }
    }
}
