import PestModel.Model.PStateSpec
import PestModel.Lemmas.PStatePrim
/-!
# C03 — parser-state combinators … match exactly (part 2: matching primitives)

Property theorems only; helper lemmas in `PestModel/Lemmas/PStatePrim*.lean`.
Each primitive advances over exactly the matched text, to a UTF-8 boundary, and does not move on
failure; the `memchr`-accelerated search equals the basic one.
-/
namespace PestModel.C03
open PestModel.PS PestModel.LineCol

/-- Advancing from a boundary over a prefix of the remaining characters lands on a boundary. -/
theorem boundary_advance (input rest pre post : Str) (pos : Nat)
    (h : restAt input pos = some rest) (hp : rest = pre ++ post) :
    restAt input (pos + bLen pre) = some post := by
  exact restAt_advance h hp

/-- `match_string`: succeeds iff the string is a prefix of the remaining input; then it advances by
exactly the string's byte length (to a boundary); otherwise it does not move. -/
theorem matchString_spec (input rest str : Str) (pos : Nat) (h : restAt input pos = some rest) :
    posMatchString input pos str =
      some (if str.isPrefixOf rest then (true, pos + bLen str) else (false, pos)) ∧
    (str.isPrefixOf rest = true → isBoundary input (pos + bLen str) = true) := by
  refine ⟨posMatchString_eq str h, fun hp => ?_⟩
  obtain ⟨t, ht⟩ := List.isPrefixOf_iff_prefix.1 hp
  exact restAt_isBoundary (restAt_advance h ht.symm)

/-- `match_insensitive`: succeeds iff some prefix `pre` of the remaining input with the same byte
length equals the string up to ASCII case folding only (it never splits a character); then it
advances over exactly `pre`. -/
theorem matchInsensitive_spec (input rest str : Str) (pos : Nat) (h : restAt input pos = some rest) :
    (∃ pre post, rest = pre ++ post ∧ bLen pre = bLen str ∧ pre.map asciiLower = str.map asciiLower ∧
        posMatchInsensitive input pos str = some (true, pos + bLen pre) ∧
        isBoundary input (pos + bLen pre) = true) ∨
    ((¬ ∃ pre post, rest = pre ++ post ∧ bLen pre = bLen str ∧ pre.map asciiLower = str.map asciiLower) ∧
        posMatchInsensitive input pos str = some (false, pos)) := by
  unfold posMatchInsensitive
  rw [h]
  simp only []
  cases hs : splitAt? rest (bLen str) with
  | none =>
    right
    refine ⟨?_, rfl⟩
    rintro ⟨pre, post, hr, hb, -⟩
    rw [(splitAt_iff rest pre post (bLen str)).2 ⟨hr, hb⟩] at hs
    cases hs
  | some p =>
    obtain ⟨pre, post⟩ := p
    obtain ⟨hr, hb⟩ := splitAt_some hs
    by_cases he : eqIgnoreAsciiCase pre str = true
    · left
      refine ⟨pre, post, hr, hb, by simpa [eqIgnoreAsciiCase] using he, by simp [he, hb], ?_⟩
      exact restAt_isBoundary (restAt_advance h hr)
    · right
      refine ⟨?_, by simp [he]⟩
      rintro ⟨pre', post', hr', hb', hm⟩
      have h2 := (splitAt_iff rest pre' post' (bLen str)).2 ⟨hr', hb'⟩
      rw [hs] at h2
      obtain ⟨rfl, rfl⟩ : pre = pre' ∧ post = post' := by simpa using h2
      exact he (by simpa [eqIgnoreAsciiCase] using hm)

/-- ASCII case folding changes only the 26 ASCII letters. -/
theorem asciiLower_spec (c : Char) :
    asciiLower c = (if 'A' ≤ c ∧ c ≤ 'Z' then Char.ofNat (c.toNat + 32) else c) ∧
    (c.toNat ≥ 128 → asciiLower c = c) := by
  refine ⟨rfl, fun hc => ?_⟩
  unfold asciiLower
  rw [if_neg]
  rintro ⟨-, h2⟩
  have h3 := Char.le_def.1 h2
  rw [UInt32.le_iff_toNat_le] at h3
  have h4 : ('Z' : Char).val.toNat = 90 := by decide
  rw [h4] at h3
  have : c.toNat ≤ 90 := h3
  omega

/-- `match_range` is inclusive at both ends and advances over exactly one character. -/
theorem matchRange_spec (input rest : Str) (pos : Nat) (a b : Char) (h : restAt input pos = some rest) :
    posMatchRange input pos a b =
      some (match rest with
        | [] => (false, pos)
        | c :: _ => if a ≤ c ∧ c ≤ b then (true, pos + cLen c) else (false, pos)) := by
  unfold posMatchRange
  cases rest with
  | nil => show _ = some (false, pos); rw [h]
  | cons c cs =>
    show _ = some (if _ then (true, pos + cLen c) else (false, pos))
    rw [h]; simp only []; split <;> rfl

/-- `match_char_by` advances over exactly one character satisfying the predicate. -/
theorem matchCharBy_spec (input rest : Str) (pos : Nat) (cs : CharSet) (h : restAt input pos = some rest) :
    posMatchCharBy input pos cs =
      some (match rest with
        | [] => (false, pos)
        | c :: _ => if cs.mem c then (true, pos + cLen c) else (false, pos)) := by
  unfold posMatchCharBy
  cases rest with
  | nil => show _ = some (false, pos); rw [h]
  | cons c cs =>
    show _ = some (if _ then (true, pos + cLen c) else (false, pos))
    rw [h]; simp only []; split <;> rfl

/-- `skip(n)` advances over exactly `n` characters, or fails without moving. -/
theorem skip_spec (input rest : Str) (pos n : Nat) (h : restAt input pos = some rest) :
    posSkip input pos n =
      some (if n ≤ rest.length then (true, pos + bLen (rest.take n)) else (false, pos)) ∧
    (n ≤ rest.length → isBoundary input (pos + bLen (rest.take n)) = true) := by
  unfold posSkip
  rw [h]
  simp only []
  refine ⟨by split <;> rfl, fun _ => ?_⟩
  exact restAt_isBoundary (restAt_advance h (List.take_append_drop n rest).symm)

/-- `skip_until` (basic search): stops at the first boundary strictly before the end of input
where one of the strings matches, otherwise at the end of input. -/
theorem skipUntil_spec (input rest : Str) (pos : Nat) (strs : List Str) (h : restAt input pos = some rest) :
    ∃ skipped rest', rest = skipped ++ rest' ∧
      posSkipUntil false input pos strs = some (pos + bLen skipped) ∧
      isBoundary input (pos + bLen skipped) = true ∧
      (rest' ≠ [] → strs.any (·.isPrefixOf rest') = true) ∧
      (∀ k, k < skipped.length → strs.any (·.isPrefixOf (rest.drop k)) = false) := by
  obtain ⟨sk, r', hr, h1, h2, h3⟩ := skipUntilBasicGo_spec strs rest pos
  refine ⟨sk, r', hr, ?_, restAt_isBoundary (restAt_advance h hr), h2, h3⟩
  unfold posSkipUntil
  rw [h]
  simp [h1]

/-- A non-empty string can only match where the first byte of the next character equals its own
first byte — the fact that makes the `memchr` candidate filter lossless. -/
theorem isPrefixOf_leadByte (a c : Char) (as cs : Str) (h : (a :: as).isPrefixOf (c :: cs) = true) :
    leadByte c = leadByte a := by
  rw [isPrefixOf_cons_head h]

/-- **The `memchr`-accelerated search and the basic search stop at the same position**, for every
list of strings (any number, empty strings included), input and start position. -/
theorem skipUntil_memchr_eq_basic (input : Str) (pos : Nat) (strs : List Str) :
    posSkipUntil true input pos strs = posSkipUntil false input pos strs := by
  unfold posSkipUntil
  cases hr : restAt input pos with
  | none => rfl
  | some rest =>
    simp only [Bool.not_true, Bool.not_false, Bool.false_eq_true, if_false, if_true]
    match strs with
    | [] => simp only [skipUntilBasicGo_nil]
    | [s1] => simp only [memmemGo_eq_basic]
    | [s1, s2] =>
      cases s1 with
      | nil => rfl
      | cons a as =>
        cases s2 with
        | nil => rfl
        | cons b bs =>
          simp only []
          rw [memchrGo_eq_basic]
          intro s hs
          simp at hs
          rcases hs with rfl | rfl
          · exact ⟨_, _, rfl, by simp⟩
          · exact ⟨_, _, rfl, by simp⟩
    | [s1, s2, s3] =>
      cases s1 with
      | nil => rfl
      | cons a as =>
        cases s2 with
        | nil => rfl
        | cons b bs =>
          cases s3 with
          | nil => rfl
          | cons c cs =>
            simp only []
            rw [memchrGo_eq_basic]
            intro s hs
            simp at hs
            rcases hs with rfl | rfl | rfl
            · exact ⟨_, _, rfl, by simp⟩
            · exact ⟨_, _, rfl, by simp⟩
            · exact ⟨_, _, rfl, by simp⟩
    | _ :: _ :: _ :: _ :: _ => rfl

/-- `stack_match_peek_slice`: Rust slice semantics with negative indices; an out-of-range index
fails; an empty range succeeds without moving; otherwise the selected strings are matched one
after another (in the requested direction); the stack is never modified. -/
theorem peekSlice_spec (cfg : Cfg) (fuel : Nat) (start : Int) (stop : Option Int) (dir : MatchDir)
    (s : PState) :
    run cfg (fuel + 1) (.stackMatchPeekSlice start stop dir) s =
      match constrainIdxs start stop s.stack.cache.length with
      | none => .err s
      | some (a, b) =>
        if b ≤ a then .ok s else
        let sl := (s.stack.cache.reverse.drop a).take (b - a)
        match matchAll s.input (match dir with | .bottomToTop => sl | .topToBottom => sl.reverse) s.pos with
        | none => .panic
        | some (true, pos') => .ok { s with pos := pos' }
        | some (false, _) => .err s := by
  rw [run]
  rfl

/-- `normalize_index` is Rust's slice indexing with negative indices counting from the top. -/
theorem normalizeIndex_spec (i : Int) (len : Nat) :
    normalizeIndex i len =
      (if 0 ≤ i ∧ i ≤ len then some i.toNat
       else if i < 0 ∧ 0 ≤ (len : Int) + i then some ((len : Int) + i).toNat else none) := by
  unfold normalizeIndex
  by_cases h1 : i > (len : Int)
  · have a1 : ¬ (0 ≤ i ∧ i ≤ len) := by omega
    have a2 : ¬ (i < 0 ∧ 0 ≤ (len : Int) + i) := by omega
    rw [if_pos h1, if_neg a1, if_neg a2]
  · rw [if_neg h1]
    by_cases h2 : i ≥ 0
    · have a1 : 0 ≤ i ∧ i ≤ len := by omega
      rw [if_pos h2, if_pos a1]
    · have a1 : ¬ (0 ≤ i ∧ i ≤ len) := by omega
      rw [if_neg h2, if_neg a1]
      by_cases h3 : (len : Int) + i ≥ 0
      · have a2 : i < 0 ∧ 0 ≤ (len : Int) + i := by omega
        simp only [if_pos h3, if_pos a2]
      · have a2 : ¬ (i < 0 ∧ 0 ≤ (len : Int) + i) := by omega
        simp only [if_neg h3, if_neg a2]

/-- `matchAll` succeeds iff the concatenation of the strings is a prefix of the remaining input,
and then advances by its byte length. -/
theorem matchAll_spec (input rest : Str) (pos : Nat) (xs : List Str) (h : restAt input pos = some rest) :
    ∃ b pos', matchAll input xs pos = some (b, pos') ∧
      (b = true ↔ xs.flatten.isPrefixOf rest = true) ∧ (b = true → pos' = pos + bLen xs.flatten) := by
  exact matchAll_spec' input rest pos xs h

end PestModel.C03
