import PestModel.Model.Grammar
import PestModel.Gen.UnicodeTables
/-
L7 (validator) — `pest_meta::validator::validate_ast`: `is_non_progressing`, `is_non_failing`,
`validate_repetition`, `validate_choices`, `validate_whitespace_comment`, `left_recursion`
(after the fix of `check_expr`), on the abstract rules (`ParserExpr` carries the same structure
plus spans, which do not influence any decision).
-/
namespace PestModel.V
open PestModel.G

def lookup (rules : List Rule) (n : String) : Option Expr := (rules.find? (·.name = n)).map (·.expr)

/-- `is_non_progressing` (fuel bounds the inlining of rule references; `trace` = rules being inlined). -/
def isNonProgressing (rules : List Rule) : Nat → Expr → List String → Bool
  | 0, _, _ => false
  | fuel + 1, e, trace =>
    match e with
    | .str s | .insens s => s.isEmpty
    | .ident id =>
      if id = "SOI" ∨ id = "EOI" then true
      else if !trace.contains id then
        match lookup rules id with
        | some body => isNonProgressing rules fuel body (trace ++ [id])
        | none => false
      else false
    | .seq a b => isNonProgressing rules fuel a trace && isNonProgressing rules fuel b trace
    | .choice a b => isNonProgressing rules fuel a trace || isNonProgressing rules fuel b trace
    | .posPred _ | .negPred _ => true
    | .rep _ | .opt _ | .repMax _ _ => true
    | .range _ _ => false
    | .peekSlice _ _ => false
    | .repExact inner n | .repMin inner n | .repMinMax inner n _ => n == 0 || isNonProgressing rules fuel inner trace
    | .push inner => isNonProgressing rules fuel inner trace
    | .pushLiteral _ => true
    | .repOnce inner => isNonProgressing rules fuel inner trace
    | .nodeTag inner _ => isNonProgressing rules fuel inner trace
    | .skip _ => true

/-- `is_non_failing`. -/
def isNonFailing (rules : List Rule) : Nat → Expr → List String → Bool
  | 0, _, _ => false
  | fuel + 1, e, trace =>
    match e with
    | .str s | .insens s => s.isEmpty
    | .ident id =>
      if !trace.contains id then
        match lookup rules id with
        | some body => isNonFailing rules fuel body (trace ++ [id])
        | none => false
      else false
    | .opt _ | .rep _ | .repMax _ _ => true
    | .seq a b => isNonFailing rules fuel a trace && isNonFailing rules fuel b trace
    | .choice a b => isNonFailing rules fuel a trace || isNonFailing rules fuel b trace
    | .range _ _ => false
    | .peekSlice _ _ => false
    | .repExact inner n | .repMin inner n | .repMinMax inner n _ => n == 0 || isNonFailing rules fuel inner trace
    | .negPred _ => false
    | .repOnce inner => isNonFailing rules fuel inner trace
    | .push inner | .posPred inner => isNonFailing rules fuel inner trace
    | .pushLiteral _ => true
    | .nodeTag inner _ => isNonFailing rules fuel inner trace
    | .skip _ => true

def fuelFor (rules : List Rule) (e : Expr) : Nat := rulesSize rules + e.size + 2

inductive Err where
  | repCannotFail (rule : String)
  | repNonProgressing (rule : String)
  | choiceUnreachable (rule : String)
  | wsCannotFail (name : String)
  | wsNonProgressing (name : String)
  | leftRecursive (rule : String)
  | tagSilent
  | tagBuiltin
  deriving Repr, DecidableEq

/-- all sub-expressions, top-down (`filter_map_top_down`, which after the fix also descends into
tagged expressions with grammar-extras). -/
def subExprs (extras : Bool) : Expr → List Expr
  | .posPred e => .posPred e :: subExprs extras e
  | .negPred e => .negPred e :: subExprs extras e
  | .seq a b => .seq a b :: (subExprs extras a ++ subExprs extras b)
  | .choice a b => .choice a b :: (subExprs extras a ++ subExprs extras b)
  | .rep e => .rep e :: subExprs extras e
  | .repOnce e => .repOnce e :: subExprs extras e
  | .repExact e n => .repExact e n :: subExprs extras e
  | .repMin e n => .repMin e n :: subExprs extras e
  | .repMax e n => .repMax e n :: subExprs extras e
  | .repMinMax e m n => .repMinMax e m n :: subExprs extras e
  | .opt e => .opt e :: subExprs extras e
  | .push e => .push e :: subExprs extras e
  | .nodeTag e t => .nodeTag e t :: (if extras then subExprs extras e else [])
  | e => [e]

def validateRepetition (extras : Bool) (rules : List Rule) : List Err :=
  rules.flatMap fun r => (subExprs extras r.expr).filterMap fun e =>
    match e with
    | .rep inner | .repOnce inner | .repMin inner _ =>
      if isNonFailing rules (fuelFor rules inner) inner [] then some (.repCannotFail r.name)
      else if isNonProgressing rules (fuelFor rules inner) inner [] then some (.repNonProgressing r.name)
      else none
    | _ => none

def validateChoices (extras : Bool) (rules : List Rule) : List Err :=
  rules.flatMap fun r => (subExprs extras r.expr).filterMap fun e =>
    match e with
    | .choice lhs _ =>
      let node := match lhs with | .choice _ rhs => rhs | _ => lhs
      if isNonFailing rules (fuelFor rules node) node [] then some (.choiceUnreachable r.name) else none
    | _ => none

def validateWsComment (rules : List Rule) : List Err :=
  rules.filterMap fun r =>
    if r.name = "WHITESPACE" ∨ r.name = "COMMENT" then
      if isNonFailing rules (fuelFor rules r.expr) r.expr [] then some (.wsCannotFail r.name)
      else if isNonProgressing rules (fuelFor rules r.expr) r.expr [] then some (.wsNonProgressing r.name)
      else none
    else none

/-- whether implicit `WHITESPACE`/`COMMENT` skips run inside rule `name` when it is entered from a
place where they do (`skips`) or do not run (`skips_inside`). -/
def skipsInside (rules : List Rule) (name : String) (skips : Bool) : Bool :=
  if name = "WHITESPACE" ∨ name = "COMMENT" then false else
  match (rules.find? (·.name = name)).map (·.ty) with
  | some RuleType.atomic | some RuleType.compound => false
  | some RuleType.nonAtomic => true
  | _ => skips

/-- `left_recursion::check_expr` (after the fixes). `trace` is the chain of (rule, skipping inside it)
pairs entered, its head the pair under test; only a return to the head pair is a recursion. Where the
left operand of a sequence may match nothing and skipping is on, the implicit `WHITESPACE` and
`COMMENT` calls are entered too. (The memo set of the real code does not change the result.) -/
def checkExpr (extras : Bool) (rules : List Rule) : Nat → Expr → List (String × Bool) → Bool → Bool
  | 0, _, _, _ => false
  | fuel + 1, e, trace, skips =>
    let enter := fun (other : String) =>
      let key := (other, skipsInside rules other skips)
      if trace.head? = some key then true
      else if !trace.contains key then
        match lookup rules other with
        | some body => checkExpr extras rules fuel body (trace ++ [key]) key.2
        | none => false
      else false
    let last := (trace.getLast?.map (·.1)).toList
    -- the expression may match without consuming input
    let mayEmpty := fun (x : Expr) =>
      isNonFailing rules (fuelFor rules x) x last || isNonProgressing rules (fuelFor rules x) x last
    -- the implicit skip, where skipping is on: `WHITESPACE` and `COMMENT` are entered at this position
    let implicitSkip := fun (_ : Unit) =>
      skips && ((lookup rules "WHITESPACE").isSome && enter "WHITESPACE" ||
                (lookup rules "COMMENT").isSome && enter "COMMENT")
    match e with
    | .ident other => enter other
    | .seq lhs rhs =>
      if mayEmpty lhs then
        checkExpr extras rules fuel lhs trace skips || implicitSkip () || checkExpr extras rules fuel rhs trace skips
      else checkExpr extras rules fuel lhs trace skips
    | .choice lhs rhs => checkExpr extras rules fuel lhs trace skips || checkExpr extras rules fuel rhs trace skips
    | .rep e | .repOnce e | .opt e | .posPred e | .negPred e | .push e => checkExpr extras rules fuel e trace skips
    | .repMin e _ => checkExpr extras rules fuel e trace skips
    -- bounded repetitions are sequences of copies with implicit skips between them: the skip after the
    -- first copy is at the same position when that copy may match nothing
    | .repExact e n => checkExpr extras rules fuel e trace skips || (decide (2 ≤ n) && mayEmpty e && implicitSkip ())
    | .repMax e n => checkExpr extras rules fuel e trace skips || (decide (2 ≤ n) && implicitSkip ())
    | .repMinMax e lo hi =>
      checkExpr extras rules fuel e trace skips || (decide (2 ≤ hi) && (lo == 0 || mayEmpty e) && implicitSkip ())
    | .nodeTag e _ => if extras then checkExpr extras rules fuel e trace skips else false
    | _ => false

/-- a rule can start a parse (skipping on unless the rule says otherwise) and can be called from an
atomic rule (skipping off unless the rule says otherwise): both pairs are searched. -/
def leftRecursion (extras : Bool) (rules : List Rule) : List Err :=
  rules.filterMap fun r =>
    let fuel := 2 * rulesSize rules + r.expr.size + 2
    let m1 := skipsInside rules r.name true
    let m2 := skipsInside rules r.name false
    if checkExpr extras rules fuel r.expr [(r.name, m1)] m1 || checkExpr extras rules fuel r.expr [(r.name, m2)] m2
    then some (.leftRecursive r.name) else none

/-- the validator's `BUILTINS`. -/
def isBuiltin (n : String) : Bool :=
  PestModel.Gen.Unicode.builtinsExplicit.contains n ||
  (PestModel.Gen.Unicode.builtinsChainUnicode &&
    (PestModel.Gen.Unicode.advertised_binary.contains n || PestModel.Gen.Unicode.advertised_category.contains n ||
      PestModel.Gen.Unicode.advertised_script.contains n))

/-- `check_silent_builtin` (grammar-extras). -/
def checkSilentBuiltin (rules : List Rule) : Expr → Option Err
  | .ident n =>
    match rules.find? (·.name = n) with
    | some r => if r.ty = .silent then some .tagSilent else if isBuiltin n then some .tagBuiltin else none
    | none => if isBuiltin n then some .tagBuiltin else none
  | .rep e | .repMinMax e _ _ | .repMax e _ | .repMin e _ | .repOnce e | .repExact e _ | .opt e | .push e
  | .posPred e | .negPred e => checkSilentBuiltin rules e
  | _ => none

/-- `validate_tag_silent_rules` (grammar-extras only). -/
def validateTags (extras : Bool) (rules : List Rule) : List Err :=
  if !extras then [] else
  rules.flatMap fun r => (subExprs extras r.expr).filterMap fun e =>
    match e with
    | .nodeTag inner _ => checkSilentBuiltin rules inner
    | _ => none

/-- `validate_ast` (as a set of findings; the real function sorts them by span). -/
def validateAst (extras : Bool) (rules : List Rule) : List Err :=
  validateRepetition extras rules ++ validateChoices extras rules ++ validateWsComment rules ++ leftRecursion extras rules ++
    validateTags extras rules

end PestModel.V
