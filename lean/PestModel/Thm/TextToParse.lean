import PestModel.Thm.EndToEnd
import PestModel.Thm.C09
import PestModel.Lemmas.PipelineNames
import PestModel.Lemmas.PipelineIdents
import PestModel.Lemmas.NoPanicParts
/-!
# From grammar TEXT to parses — the chain C07/C09 → C06 → C05 → C01/C02/C08 on one grammar text.
-/
namespace PestModel.E2E
theorem length_mapM_some {α β : Type} (f : α → Option β) : ∀ (l : List α) (r : List β), l.mapM f = some r → r.length = l.length
  | [], r, h => by simp at h; subst h; rfl
  | a :: l, r, h => by
    simp only [List.mapM_cons, Option.pure_def, Option.bind_eq_bind] at h
    cases ha : f a with
    | none => simp [ha] at h
    | some b =>
      cases hl : l.mapM f with
      | none => simp [ha, hl] at h
      | some bs =>
        simp only [ha, hl, Option.bind_some, Option.some.injEq] at h
        subst h
        simp [length_mapM_some f l bs hl]
open PestModel.G PestModel.PS PestModel.Lower PestModel.Ref PestModel.V
open PestModel.LineCol (Str)

/-- **A grammar text the reader accepts is an accepted grammar**: whatever rules `rules` the reader returns for a text
(C07 `reader_exact`: exactly the rules its pairs denote, `validate_ast` silent), the optimizer converts them (C09
`optimizer_no_panic`); if moreover the names are distinct and not `ANY` (what `validate_pairs` checks, not modelled here), the
grammar is stack-free and untagged and the `list` pass leaves it alone, then all of `accepted_grammar_parses_as_documented`,
`accepted_grammar_generated_parser_agrees` and `accepted_grammar_failure_report` apply to it. -/
theorem accepted_of_text (extras : Bool) (text : Str) (rules : List Rule)
    (hread : PestModel.ReaderFull.readGrammar extras text = some rules)
    (nodup : (rules.map (·.name)).Nodup) (notAny : ∀ r ∈ rules, r.name ≠ "ANY")
    (stackFree : ∀ r ∈ rules, PestModel.C06.StackFree r.expr = true) (noTag : ∀ r ∈ rules, NoTagE r.expr = true)
    (listIdle : optimize extras rules = optimizeWith extras false rules) (small : rules.length ≤ 333333333) :
    ∃ rs, Accepted extras rules rs := by
  have hopt := PestModel.C09.optimizer_no_panic extras text rules hread false
  cases ho : optimizeWith extras false rules with
  | none => simp [ho] at hopt
  | some rs =>
    have hvalid : validateAst extras rules = [] := ((PestModel.C07Pairs.reader_exact extras text rules).1 hread).choose_spec.choose_spec.2.2
    have hlen : rs.length = rules.length := by
      unfold optimizeWith at ho
      cases hm : rules.mapM (fun r => (astPasses extras false rules r).bind fun r =>
          (toOptimized extras r.expr).map fun e => (⟨r.name, r.ty, e⟩ : ORule)) with
      | none => simp [hm] at ho
      | some opt =>
        simp only [hm, Option.some.injEq] at ho
        rw [← ho, List.length_map]
        exact length_mapM_some _ _ _ hm
    exact ⟨rs, ⟨nodup, notAny, stackFree, noTag, hvalid, by rw [listIdle]; exact ho, ho, by omega⟩⟩

/-- **From `parse_and_optimize` to parses**: when the pipeline model (`parse`, `validate_pairs`, `consume_rules` with
`validate_ast`, `optimize`) returns rules `rs` for a text, the reader returns rules with pairwise distinct names, none of them
`ANY` (both from `validate_pairs`, `pipeline_ok`), on which `validate_ast` is silent and whose optimization is `rs`; so a
stack-free, untagged grammar that the `list` pass leaves alone is `Accepted`, with no hypothesis about names left. -/
theorem accepted_of_pipeline (extras : Bool) (text : Str) (rs : List ORule)
    (h : PestModel.Pipeline.parseAndOptimize extras text = some (.ok rs)) :
    ∃ rules, PestModel.ReaderFull.readGrammar extras text = some rules ∧
      ((∀ r ∈ rules, PestModel.C06.StackFree r.expr = true) → (∀ r ∈ rules, NoTagE r.expr = true) →
        optimizeWith extras false rules = some rs → rules.length ≤ 333333333 → Accepted extras rules rs) := by
  obtain ⟨rules, hread, hva, ho, hnd, hkw⟩ := PestModel.Pipeline.pipeline_ok extras text rs h
  refine ⟨rules, hread, fun sf nt li sm => ?_⟩
  have hlen : rs.length = rules.length := by
    unfold optimizeWith at li
    cases hm : rules.mapM (fun r => (astPasses extras false rules r).bind fun r =>
        (toOptimized extras r.expr).map fun e => (⟨r.name, r.ty, e⟩ : ORule)) with
    | none => simp [hm] at li
    | some opt =>
      simp only [hm, Option.some.injEq] at li
      rw [← li, List.length_map]
      exact length_mapM_some _ _ _ hm
  exact ⟨hnd, fun r hr hc => hkw r hr (by rw [hc]; decide), sf, nt, hva, ho, li, by omega⟩

/-- `some (.ok _)`. -/
def isOk {α : Type} : Option (PestModel.Pipeline.Out α) → Bool
  | some (.ok _) => true
  | _ => false

/-- not vacuous: the pipeline model accepts the two-rule grammar text `a = { "x" ~ b }⏎b = { "y" }` (kernel evaluation of
the reference denotation of the regenerated meta-grammar, `validate_pairs`, the reader, `validate_ast` and the optimizer). -/
example : isOk (PestModel.Pipeline.parseAndOptimize false
    ['a',' ','=',' ','{',' ','"','x','"',' ','~',' ','b',' ','}','\n','b',' ','=',' ','{',' ','"','y','"',' ','}']) = true := by
  decide +kernel

open PestModel.ReaderValue (idents) in
/-- **From the grammar TEXT to "never panics"**: when the pipeline model of `parse_and_optimize` accepts a text, and the grammar
it reads is stack-free, untagged and left alone by the `list` pass, then for every rule of the grammar as start rule and every
input the VM model, run on what the pipeline returned, ends with pairs or with an error — no `undefined rule`, no index or slice
out of range, no missing answer. The names come from `validate_pairs` (`pipeline_ok_idents`); the only assumption about the
Unicode table is that it knows the property names the validator lets through. -/
theorem pipeline_grammar_never_panics (extras : Bool) (text : Str) (rs : List ORule)
    (h : PestModel.Pipeline.parseAndOptimize extras text = some (.ok rs)) :
    ∃ rules, PestModel.ReaderFull.readGrammar extras text = some rules ∧
      ((∀ r ∈ rules, PestModel.C06.StackFree r.expr = true) → (∀ r ∈ rules, NoTagE r.expr = true) →
        optimizeWith extras false rules = some rs → rules.length ≤ 333333333 →
        ∀ (uni : String → Option CharSet),
          (∀ n, PestModel.V.isBuiltin n = true → ¬ n ∈ PestModel.Gen.Unicode.builtinsExplicit → (uni n).isSome = true) →
        ∀ (memchr detail : Bool) (name : String), name ∈ rules.map (·.name) → ∀ (input : Str),
          ∃ fuel, match PestModel.C01.vmParse rs uni memchr detail fuel name input with
            | .ok _ => True
            | .err _ => True
            | .panic => False
            | .fuel => False) := by
  obtain ⟨rules, hread, hva, ho, hnd, hkw, hid, hpc⟩ := PestModel.Pipeline.pipeline_ok_idents extras text rs h
  refine ⟨rules, hread, fun sf nt li sm uni huni memchr detail name hname input => ?_⟩
  have hlen : rs.length = rules.length := by
    unfold optimizeWith at li
    cases hm : rules.mapM (fun r => (astPasses extras false rules r).bind fun r =>
        (toOptimized extras r.expr).map fun e => (⟨r.name, r.ty, e⟩ : ORule)) with
    | none => simp [hm] at li
    | some opt =>
      simp only [hm, Option.some.injEq] at li
      rw [← li, List.length_map]
      exact length_mapM_some _ _ _ hm
  have hacc : Accepted extras rules rs :=
    ⟨hnd, fun r hr hc => hkw r hr (by rw [hc]; decide), sf, nt, hva, ho, li, by omega⟩
  let c : Ctx := { rules, input, extras, uni }
  have hnameOK : ∀ r ∈ rules, ∀ n ∈ idents r.expr, nameOK c n = true := by
    intro r hr n hn
    have hsb := stackFree_idents r.expr (sf r hr) n hn
    rcases hid r hr n hn with hdef | hb
    · simp only [nameOK, Bool.or_eq_true]
      exact .inl (.inl (has_of_mem_names (c := c) (by simpa using hdef)))
    · by_cases hex : n ∈ PestModel.Gen.Unicode.builtinsExplicit
      · simp only [nameOK, Bool.or_eq_true]
        exact .inl (.inr (explicit_plain n hex hsb))
      · have hu := huni n hb hex
        have h1 : n ≠ "PEEK" := fun he => hex (by rw [he]; decide)
        have h2 : n ≠ "POP" := fun he => hex (by rw [he]; decide)
        simp only [nameOK, Bool.or_eq_true, Bool.and_eq_true, decide_eq_true_eq]
        exact .inr ⟨⟨h1, h2⟩, hu⟩
  have hns : RulesNS c := by
    intro nm id r hr
    obtain ⟨_, hmem, _⟩ := PestModel.V.lookup_of_rule? hr
    exact ns_of_parts c r.expr (sf r hmem) (hpc r hmem) (hnameOK r hmem)
  have hstart : nameOK c name = true := by
    simp only [nameOK, Bool.or_eq_true]
    exact .inl (.inl (has_of_mem_names (c := c) (by simpa using hname)))
  exact accepted_ns_grammar_never_panics extras rules rs hacc uni memchr detail name input hns hstart

/-- the hypotheses of `pipeline_grammar_never_panics`, evaluated on a text. -/
def hypothesesHold (text : Str) (start : String) : Bool :=
  match PestModel.Pipeline.parseAndOptimize false text, PestModel.ReaderFull.readGrammar false text with
  | some (.ok rs), some rules =>
    rules.all (fun r => PestModel.C06.StackFree r.expr) && rules.all (fun r => NoTagE r.expr) &&
      decide (optimizeWith false false rules = some rs) && decide (rules.length ≤ 333333333) && (rules.map (·.name)).contains start
  | _, _ => false

/-- not vacuous: they hold for `a = { "x" ~ b }⏎b = { "y" }` with start rule `a` (kernel evaluation of the whole pipeline). -/
example : hypothesesHold
    ['a',' ','=',' ','{',' ','"','x','"',' ','~',' ','b',' ','}','\n','b',' ','=',' ','{',' ','"','y','"',' ','}'] "a" = true := by
  decide +kernel

end PestModel.E2E
