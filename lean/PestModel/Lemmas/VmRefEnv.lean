import PestModel.Lemmas.VmRefStk
/-! C01, part 5: the lowered environment — rule lookup in the VM (`Env.index`, slot `3 * i + ctx`), in
the reference (`Ctx.rule?`) and in the restorer (`lookupO`) agree. -/
namespace PestModel.VmRef
open PestModel.G PestModel.PS PestModel.Lower PestModel.Ref PestModel.Views
open PestModel.LineCol (Str)

/-- the reference context of a lowered environment. -/
def mkCtx (env : Env) (extras : Bool) (input : Str) : Ctx :=
  { rules := ofOptimizedRules env.rules, input, extras, uni := env.uni }

def mkCfg (env : Env) (memchr : Bool) : Cfg := { memchr, env := lowerAll .vm env }

def oruleToRule (r : ORule) : Rule := ⟨r.name, r.ty, ofOptimized r.expr⟩

theorem index_go_spec (name : String) : ∀ (rs : List ORule) (i : Nat),
    match Env.index.go name rs i with
    | some j => ∃ r, i ≤ j ∧ rs[j - i]? = some r ∧ r.name = name ∧
        rs.find? (fun r => r.name = name) = some r ∧
        Ctx.rule?.go name (ofOptimizedRules rs) i = some (j, oruleToRule r)
    | none => Ctx.rule?.go name (ofOptimizedRules rs) i = none ∧
        rs.find? (fun r => r.name = name) = none
  | [], i => by
    rw [Env.index.go]
    exact ⟨by simp [ofOptimizedRules, Ctx.rule?.go], rfl⟩
  | r :: rs, i => by
    rw [Env.index.go]
    by_cases h : r.name = name
    · rw [if_pos h]
      refine ⟨r, Nat.le_refl _, by simp, h, by simp [h], ?_⟩
      simp [ofOptimizedRules, Ctx.rule?.go, h, oruleToRule]
    · rw [if_neg h]
      have ih := index_go_spec name rs (i + 1)
      cases hg : Env.index.go name rs (i + 1) with
      | some j =>
        rw [hg] at ih
        obtain ⟨r', hle, hget, hn, hf, hr⟩ := ih
        refine ⟨r', by omega, ?_, hn, ?_, ?_⟩
        · have : j - i = (j - (i + 1)) + 1 := by omega
          rw [this, List.getElem?_cons_succ]; exact hget
        · rw [List.find?_cons_of_neg (by simpa using h)]; exact hf
        · simp only [ofOptimizedRules, List.map_cons, Ctx.rule?.go, h, if_false]
          exact hr
      | none =>
        rw [hg] at ih
        refine ⟨?_, ?_⟩
        · simp only [ofOptimizedRules, List.map_cons, Ctx.rule?.go, h, if_false]
          exact ih.1
        · rw [List.find?_cons_of_neg (by simpa using h)]; exact ih.2

theorem index_some {env : Env} {extras : Bool} {input : Str} {name : String} {i : Nat}
    (h : env.index name = some i) :
    ∃ r, env.rules[i]? = some r ∧ r.name = name ∧ lookupO env.rules name = some r.expr ∧
      (mkCtx env extras input).rule? name = some (i, oruleToRule r) ∧
      env.rules.find? (fun r => r.name = name) = some r := by
  have := index_go_spec name env.rules 0
  unfold Env.index at h
  rw [h] at this
  obtain ⟨r, -, hget, hn, hf, hr⟩ := this
  exact ⟨r, by simpa using hget, hn, by simp [lookupO, hf], hr, hf⟩

theorem index_none {env : Env} {extras : Bool} {input : Str} {name : String}
    (h : env.index name = none) :
    (mkCtx env extras input).rule? name = none ∧ lookupO env.rules name = none ∧
      env.rules.find? (fun r => r.name = name) = none := by
  have := index_go_spec name env.rules 0
  unfold Env.index at h
  rw [h] at this
  exact ⟨this.1, by simp [lookupO, this.2], this.2⟩

theorem has_eq (env : Env) (extras : Bool) (input : Str) (name : String) :
    (mkCtx env extras input).has name = env.has name := by
  unfold Ctx.has Env.has
  cases h : env.index name with
  | some i =>
    obtain ⟨r, -, -, -, hr, -⟩ := index_some (extras := extras) (input := input) h
    rw [hr]; rfl
  | none => rw [(index_none (extras := extras) (input := input) h).1]; rfl

theorem ctxIdx_lt (m : Atomicity) : ctxIdx m < 3 := by cases m <;> simp [ctxIdx]

theorem contexts_ctxIdx (m : Atomicity) : contexts[ctxIdx m]? = some m := by
  cases m <;> rfl

theorem lowerAll_go_get (env : Env) : ∀ (rs : List ORule) (i k : Nat) (m : Atomicity),
    (lowerAll.go .vm env rs i)[3 * k + ctxIdx m]? = (rs[k]?).map fun r => vmRule env (i + k) r m
  | [], i, k, m => by simp [lowerAll.go]
  | r :: rs, i, k, m => by
    rw [lowerAll.go]
    have hlen : (contexts.map fun c => vmRule env i r c).length = 3 := rfl
    cases k with
    | zero =>
      have := ctxIdx_lt m
      rw [List.getElem?_append_left (by rw [hlen]; omega)]
      simp only [Nat.mul_zero, Nat.zero_add, List.getElem?_map, contexts_ctxIdx, Option.map_some,
        List.getElem?_cons_zero, Nat.add_zero]
    | succ k =>
      rw [List.getElem?_append_right (by rw [hlen]; omega), hlen]
      have : 3 * (k + 1) + ctxIdx m - 3 = 3 * k + ctxIdx m := by omega
      rw [this, lowerAll_go_get env rs (i + 1) k m, List.getElem?_cons_succ]
      have : i + 1 + k = i + (k + 1) := by omega
      rw [this]

theorem env_get {env : Env} {memchr : Bool} {i : Nat} {r : ORule} (m : Atomicity)
    (h : env.rules[i]? = some r) :
    (mkCfg env memchr).env[3 * i + ctxIdx m]? = some (vmRule env i r m) := by
  show (lowerAll.go .vm env env.rules 0)[3 * i + ctxIdx m]? = _
  rw [lowerAll_go_get, h]
  simp

end PestModel.VmRef
