import PestModel.Lemmas.ReaderShape
/-! C09, part B (continued): no panic site of `ReaderP` is reachable on pairs of the shape `GrammarForest`. -/
namespace PestModel.ReaderShape
open PestModel.G PestModel.Reader PestModel.ReaderP
open PestModel.ReaderFull (kind strOf stripEnds dropFirstByte theChar tokens isOp dropLead modifierOf)
open PestModel.Views (Tree sizeList)
open PestModel.LineCol (Str)

/-! ### `R3` -/

theorem bind_np {α β : Type} {x : R3 α} {f : α → R3 β} (hx : x ≠ .panic) (hf : ∀ a, x = .ok a → f a ≠ .panic) :
    x.bind f ≠ .panic := by
  cases x with
  | ok a => exact hf a rfl
  | err => simp [R3.bind]
  | panic => exact absurd rfl hx

theorem map_np {α β : Type} {x : R3 α} {f : α → β} (hx : x ≠ .panic) : x.map f ≠ .panic := by
  unfold R3.map
  exact bind_np hx (fun _ _ => by simp)

theorem orErr_np {α : Type} (o : Option α) : orErr o ≠ .panic := by cases o <;> simp [orErr]

/-! ### leaves -/

theorem numberOf_np {text : Str} {t : Tree} (h : HasStr text t) : numberOf text t ≠ .panic := by
  obtain ⟨w, hw⟩ := h
  simp only [numberOf, hw, orPanic, R3.bind]
  exact orErr_np _

theorem integerOf_np {text : Str} {t : Tree} (h : HasStr text t) : integerOf text t ≠ .panic := by
  obtain ⟨w, hw⟩ := h
  simp only [integerOf, hw, orPanic, R3.bind]
  exact orErr_np _

theorem peekSlice_np {text : Str} {cs : List Tree} (h : PeekKids text cs) : peekSlice text cs ≠ .panic := by
  obtain ⟨o, i1, r, i2, c, rfl, hr, hc, h1, h2⟩ := h
  have tail : ∀ a : Int, (match (i2 ++ [c] : List Tree) with
      | pe :: rest' =>
        if kind pe = "closing_brack" then R3.ok (Expr.peekSlice a none)
        else if kind pe = "integer" then
          match rest' with
          | _ :: _ => (integerOf text pe).map fun b => Expr.peekSlice a (some b)
          | [] => R3.panic
        else R3.panic
      | [] => R3.panic) ≠ R3.panic := by
    intro a
    rcases h2 with rfl | ⟨x, rfl, hx, hs⟩
    · simp [hc]
    · simp [hx]
      exact map_np (integerOf_np hs)
  rcases h1 with rfl | ⟨x, rfl, hx, hs⟩
  · simp only [peekSlice, List.nil_append, hr, if_true, R3.bind]
    exact tail 0
  · simp only [peekSlice, List.cons_append, List.nil_append, hx]
    simp only [show ("integer" = "range_operator") = False from by decide, if_false, if_true]
    apply bind_np (map_np (integerOf_np hs))
    intro ⟨a, more⟩ hm
    have : more = i2 ++ [c] := by
      unfold R3.map R3.bind at hm
      cases hi : integerOf text x <;> simp [hi] at hm
      exact hm.2.symm
    subst this
    exact tail a

theorem leafNode_np {extras : Bool} {text : Str} {t : Tree} (h : LeafT text t) : leafNode extras text t ≠ .panic := by
  rcases h with ⟨hk, o, s, c, hc, hs⟩ | ⟨hk, hp⟩ | ⟨hk, w, hw⟩ | ⟨hk, hs⟩ | ⟨hk, s, hc, hs⟩ | ⟨hk, a, op, b, hc, ha, hb⟩
  · simp only [leafNode, hk, if_true, hc]
    cases extras
    · simp
    · simp only [if_true]
      exact map_np (literal_np (Or.inl rfl) hs)
  · simp [leafNode, hk]
    exact peekSlice_np hp
  · simp [leafNode, hk, hw, orPanic, R3.map, R3.bind]
  · simp [leafNode, hk]
    exact map_np (literal_np (Or.inl rfl) hs)
  · simp [leafNode, hk, hc]
    exact map_np (literal_np (Or.inl rfl) hs)
  · simp [leafNode, hk, hc]
    apply bind_np (literal_np (Or.inr rfl) ha)
    intro x _
    apply bind_np (literal_np (Or.inr rfl) hb)
    intro y _
    cases theChar x <;> cases theChar y <;> simp [orErr, R3.bind]

theorem postfixOp_np {text : Str} {n : Expr} {p : Tree} (h : PostfixT text p) : postfixOp text n p ≠ .panic := by
  rcases h with hk | hk | hk | ⟨hk, o, x, c, hc, hs⟩ | ⟨hk, o, x, cm, c, hc, hs⟩ | ⟨hk, o, cm, x, c, hc, hs⟩ |
    ⟨hk, o, a, cm, b, c, hc, ha, hb⟩
  · simp [postfixOp, hk]
  · simp [postfixOp, hk]
  · simp [postfixOp, hk]
  · simp [postfixOp, hk, hc]
    apply bind_np (numberOf_np hs)
    intro num _
    split <;> simp
  · simp [postfixOp, hk, hc]
    exact map_np (numberOf_np hs)
  · simp [postfixOp, hk, hc]
    apply bind_np (numberOf_np hs)
    intro num _
    split <;> simp
  · simp [postfixOp, hk, hc]
    apply bind_np (numberOf_np ha)
    intro mn _
    apply bind_np (numberOf_np hb)
    intro mx _
    split <;> simp

theorem postfixes_np {text : Str} : ∀ (ps : List Tree) (n : Expr), (∀ p ∈ ps, PostfixT text p) →
    postfixes text n ps ≠ .panic
  | [], _, _ => by simp [postfixes]
  | p :: ps, n, h => by
    simp only [postfixes]
    exact bind_np (postfixOp_np (h p (by simp))) (fun n' _ => postfixes_np ps n' (fun q hq => h q (by simp [hq])))

theorem postfixes_paren_np {text : Str} {c : Tree} {post : List Tree} (n : Expr) (hc : kind c = "closing_paren")
    (h : ∀ p ∈ post, PostfixT text p) : postfixes text n (c :: post) ≠ .panic := by
  simp only [postfixes]
  have : postfixOp text n c = .ok n := by simp [postfixOp, hc]
  rw [this]
  exact postfixes_np post n h

open PestModel.C07Full (opToks opTok shape shapeGo joinB pratt_shape IsTerm IsOpOf tokens_term tokens_op isOp_term isOp_op)

/-! ### sizes -/

theorem sizeList_append (a b : List Tree) : sizeList (a ++ b) = sizeList a + sizeList b := by
  induction a with
  | nil => simp [sizeList]
  | cons t ts ih => simp [sizeList, ih]; omega

theorem size_eq (t : Tree) : t.size = 2 + sizeList t.children := by
  cases t; simp [Tree.size, Tree.children]

theorem size_le_of_mem {t : Tree} {l : List Tree} (h : t ∈ l) : t.size ≤ sizeList l := by
  induction l with
  | nil => simp at h
  | cons x xs ih =>
    rcases List.mem_cons.1 h with rfl | h
    · simp [sizeList]
    · have := ih h; simp [sizeList]; omega

theorem sizeList_flat_mem {rest : List (Tree × Tree)} {p : Tree × Tree} (h : p ∈ rest) :
    p.2.size ≤ sizeList (rest.flatMap fun p => [p.1, p.2]) :=
  size_le_of_mem (List.mem_flatMap.2 ⟨p, h, by simp⟩)

/-! ### the infix stage -/

def opsOf (rest : List (Tree × Tree)) : List Bool := rest.map fun p => decide (kind p.1 = "choice_operator")

theorem isOpOf_of_infix {t : Tree} (h : IsInfix t) : IsOpOf t (decide (kind t = "choice_operator")) := by
  rcases h with h | h <;> simp [IsOpOf, h]

theorem isTerm_of_kind {t : Tree} (h : kind t = "term") : IsTerm t := by simp [IsTerm, h]

theorem tokens_flat : ∀ (rest : List (Tree × Tree)), (∀ p ∈ rest, IsInfix p.1 ∧ kind p.2 = "term") →
    ∀ i, tokens (rest.flatMap fun p => [p.1, p.2]) i = opToks i (opsOf rest)
  | [], _, i => by simp [tokens, opToks, opsOf]
  | p :: rest, h, i => by
    have hp := h p (by simp)
    simp only [List.flatMap_cons, List.cons_append, List.nil_append, opsOf, List.map_cons, opToks]
    rw [tokens_op (isOpOf_of_infix hp.1), tokens_term (isTerm_of_kind hp.2)]
    rw [tokens_flat rest (fun q hq => h q (by simp [hq])) (i + 1)]
    rfl

theorem prims_flat {α : Type} (un : List Tree → α) : ∀ (rest : List (Tree × Tree)),
    (∀ p ∈ rest, IsInfix p.1 ∧ kind p.2 = "term") →
    ((rest.flatMap fun p => [p.1, p.2]).filter fun p => !isOp p).map (fun p => un p.children) =
      rest.map fun p => un p.2.children
  | [], _ => by simp
  | p :: rest, h => by
    have hp := h p (by simp)
    simp only [List.flatMap_cons, List.cons_append, List.nil_append]
    simp [isOp_op (isOpOf_of_infix hp.1), isOp_term (isTerm_of_kind hp.2),
      prims_flat un rest (fun q hq => h q (by simp [hq]))]

def below (n : Nat) : Bin → Prop
  | .leaf i => i < n
  | .seq a b => below n a ∧ below n b
  | .alt a b => below n a ∧ below n b

theorem below_mono {n m : Nat} (h : n ≤ m) : ∀ {b : Bin}, below n b → below m b
  | .leaf i, hb => by simp only [below] at *; omega
  | .seq a b, hb => ⟨below_mono h hb.1, below_mono h hb.2⟩
  | .alt a b, hb => ⟨below_mono h hb.1, below_mono h hb.2⟩

theorem below_joinB {n : Nat} {acc : Option Bin} {cur : Bin} (ha : ∀ a, acc = some a → below n a) (hc : below n cur) :
    below n (joinB acc cur) := by
  cases acc with
  | none => exact hc
  | some a => exact ⟨ha a rfl, hc⟩

theorem below_shapeGo : ∀ (ops : List Bool) (acc : Option Bin) (cur : Bin) (i : Nat),
    (∀ a, acc = some a → below i a) → below i cur → below (i + ops.length) (shapeGo acc cur i ops)
  | [], acc, cur, i, ha, hc => by simpa [shapeGo] using below_joinB ha hc
  | false :: r, acc, cur, i, ha, hc => by
    simp only [shapeGo, List.length_cons]
    have := below_shapeGo r acc (.seq cur (.leaf i)) (i + 1)
      (fun a h => below_mono (Nat.le_succ i) (ha a h)) ⟨below_mono (Nat.le_succ i) hc, by simp [below]⟩
    simpa [Nat.add_assoc, Nat.add_comm 1] using this
  | true :: r, acc, cur, i, ha, hc => by
    simp only [shapeGo, List.length_cons]
    have := below_shapeGo r (some (joinB acc cur)) (.leaf i) (i + 1)
      (fun a h => by cases h; exact below_mono (Nat.le_succ i) (below_joinB ha hc)) (by simp [below])
    simpa [Nat.add_assoc, Nat.add_comm 1] using this

theorem build_np (prims : List (R3 Expr)) (hp : ∀ r ∈ prims, r ≠ .panic) :
    ∀ b : Bin, below prims.length b → build prims b ≠ .panic
  | .leaf i, hb => by
    simp only [below] at hb
    simp only [build, List.getElem?_eq_getElem hb]
    exact hp _ (List.getElem_mem hb)
  | .seq a b, hb => by
    simp only [build]
    exact bind_np (build_np prims hp a hb.1) (fun _ _ => bind_np (build_np prims hp b hb.2) (fun _ _ => by simp))
  | .alt a b, hb => by
    simp only [build]
    exact bind_np (build_np prims hp a hb.1) (fun _ _ => bind_np (build_np prims hp b hb.2) (fun _ _ => by simp))

theorem anyPanic_false : ∀ (prims : List (R3 Expr)), (∀ r ∈ prims, r ≠ .panic) → anyPanic prims = false
  | [], _ => rfl
  | .ok _ :: rest, h => by simp only [anyPanic]; exact anyPanic_false rest (fun r hr => h r (by simp [hr]))
  | .err :: rest, h => by simp only [anyPanic]; exact anyPanic_false rest (fun r hr => h r (by simp [hr]))
  | .panic :: _, h => absurd rfl (h .panic (by simp))

theorem infixStage_np (un : List Tree → R3 Expr) (t0 : Tree) (rest : List (Tree × Tree)) (h0 : kind t0 = "term")
    (hr : ∀ p ∈ rest, IsInfix p.1 ∧ kind p.2 = "term") (hu0 : un t0.children ≠ .panic)
    (hur : ∀ p ∈ rest, un p.2.children ≠ .panic) :
    infixStage (t0 :: rest.flatMap fun p => [p.1, p.2])
      (((t0 :: rest.flatMap fun p => [p.1, p.2]).filter fun p => !isOp p).map fun p => un p.children) ≠ .panic := by
  have htok : tokens (t0 :: rest.flatMap fun p => [p.1, p.2]) 0 = 100 :: opToks 1 (opsOf rest) := by
    rw [tokens_term (isTerm_of_kind h0), tokens_flat rest hr]
  have hprims : ((t0 :: rest.flatMap fun p => [p.1, p.2]).filter fun p => !isOp p).map (fun p => un p.children) =
      un t0.children :: rest.map fun p => un p.2.children := by
    simp [isOp_term (isTerm_of_kind h0), prims_flat un rest hr]
  obtain ⟨t, hparse, hof⟩ := pratt_shape (opsOf rest)
  have hnp : ∀ r ∈ (un t0.children :: rest.map fun p => un p.2.children), r ≠ R3.panic := by
    intro r hr'
    rcases List.mem_cons.1 hr' with rfl | hr'
    · exact hu0
    · obtain ⟨p, hp, rfl⟩ := List.mem_map.1 hr'
      exact hur p hp
  rw [hprims]
  simp only [infixStage, htok, hparse, hof, anyPanic_false _ hnp]
  apply build_np _ hnp
  have := below_shapeGo (opsOf rest) none (.leaf 0) 1 (by intro a h; cases h) (by simp [below])
  simpa [shape, opsOf, Nat.add_comm] using this


/-! ### kinds -/

theorem PostfixT.ne_asg {text : Str} {t : Tree} (h : PostfixT text t) : kind t ≠ "assignment_operator" := by
  rcases h with h | h | h | ⟨h, _⟩ | ⟨h, _⟩ | ⟨h, _⟩ | ⟨h, _⟩ <;> simp [h]

theorem LeafT.kinds {text : Str} {t : Tree} (h : LeafT text t) :
    kind t = "_push_literal" ∨ kind t = "peek_slice" ∨ kind t = "identifier" ∨ kind t = "string" ∨
    kind t = "insensitive_string" ∨ kind t = "range" := by
  rcases h with ⟨h, _⟩ | ⟨h, _⟩ | ⟨h, _⟩ | ⟨h, _⟩ | ⟨h, _⟩ | ⟨h, _⟩ <;> simp [h]

theorem UnBody.head {text : Str} {l : List Tree} (h : UnBody text l) :
    ∃ x r, l = x :: r ∧ kind x ≠ "assignment_operator" := by
  cases h with
  | pre hp _ => exact ⟨_, _, rfl, by rcases hp with h | h <;> simp [h]⟩
  | paren ho _ _ _ _ => exact ⟨_, _, rfl, by simp [ho]⟩
  | push ht _ _ _ _ => exact ⟨_, _, rfl, by simp [ht]⟩
  | leaf hl _ => exact ⟨_, _, rfl, by rcases hl.kinds with h | h | h | h | h | h <;> simp [h]⟩

/-- without a tag, the pair after the first one is never an `assignment_operator`. -/
theorem UnBody.second {text : Str} {x y : Tree} {r : List Tree} (h : UnBody text (x :: y :: r)) :
    kind y ≠ "assignment_operator" := by
  cases h with
  | pre _ hb => obtain ⟨x', r', he, hk⟩ := hb.head; cases he; exact hk
  | paren _ he _ _ _ => simp [he]
  | push _ _ _ _ hp => exact (hp y (by simp)).ne_asg
  | leaf _ hp => exact (hp y (by simp)).ne_asg

theorem getNodeTag_plain {text : Str} {x : Tree} {r : List Tree} (h : UnBody text (x :: r)) :
    getNodeTag text (x :: r) = .ok (x, r, none) := by
  cases r with
  | nil => rfl
  | cons y r' => simp [getNodeTag, h.second]

/-! ### the main induction -/

/-- the dispatch of `unaries` after the optional tag. -/
theorem nodeOf_np {extras : Bool} {text : Str} {f : Nat}
    (ih1 : ∀ pairs, ExprKids text pairs → sizeList pairs + 1 ≤ f → consumeExpr extras text f pairs ≠ .panic)
    (ih2 : ∀ pairs, UnArgs text pairs → sizeList pairs + 1 ≤ f → unaries extras text f pairs ≠ .panic)
    {x : Tree} {r : List Tree} (h : UnBody text (x :: r)) (hfit : sizeList (x :: r) ≤ f) :
    nodeOf extras text (consumeExpr extras text f) (unaries extras text f) x r ≠ .panic := by
  have hx : 2 ≤ x.size := by rw [size_eq]; omega
  have hr : sizeList r + 1 ≤ f := by simp only [sizeList] at hfit; omega
  cases h with
  | pre hp hb =>
    rcases hp with hk | hk
    · simp only [nodeOf, hk]
      simp only [show ("positive_predicate_operator" = "opening_paren") = False from by decide, if_false, if_true]
      exact map_np (ih2 r (.plain hb) hr)
    · simp only [nodeOf, hk]
      simp only [show ("negative_predicate_operator" = "opening_paren") = False from by decide,
        show ("negative_predicate_operator" = "positive_predicate_operator") = False from by decide, if_false, if_true]
      exact map_np (ih2 r (.plain hb) hr)
  | paren ho he hk hc hp =>
    simp only [nodeOf, ho, if_true]
    exact ih2 _ (.parenRest he hk hc hp) hr
  | push ht hc he hk hp =>
    rename_i o e c
    simp only [nodeOf, ht, hc]
    simp only [show ("_push" = "opening_paren") = False from by decide,
      show ("_push" = "positive_predicate_operator") = False from by decide,
      show ("_push" = "negative_predicate_operator") = False from by decide,
      show ("_push" = "expression") = False from by decide, if_false, if_true]
    have hsz : sizeList e.children + 1 ≤ f := by
      have h1 : e.size ≤ sizeList x.children := by rw [hc]; exact size_le_of_mem (by simp)
      have h2 := size_eq e
      have h3 := size_eq x
      simp only [sizeList] at hfit
      omega
    exact bind_np (map_np (ih1 _ hk hsz)) (fun n _ => postfixes_np r n hp)
  | leaf hl hp =>
    have hk := hl.kinds
    have e1 : (kind x = "opening_paren") = False := by rcases hk with h | h | h | h | h | h <;> simp [h]
    have e2 : (kind x = "positive_predicate_operator") = False := by rcases hk with h | h | h | h | h | h <;> simp [h]
    have e3 : (kind x = "negative_predicate_operator") = False := by rcases hk with h | h | h | h | h | h <;> simp [h]
    have e4 : (kind x = "expression") = False := by rcases hk with h | h | h | h | h | h <;> simp [h]
    have e5 : (kind x = "_push") = False := by rcases hk with h | h | h | h | h | h <;> simp [h]
    simp only [nodeOf, e1, e2, e3, e4, e5, if_false]
    exact bind_np (leafNode_np hl) (fun n _ => postfixes_np r n hp)

theorem wrapTag_np {extras : Bool} {node : R3 Expr} {tag : Option Str} (h : node ≠ .panic) :
    wrapTag extras node tag ≠ .panic := by
  unfold wrapTag
  cases tag with
  | none => exact h
  | some t => cases extras <;> simp <;> first | exact h | exact map_np h

theorem dropLead_kids {text : Str} {pairs : List Tree} (h : ExprKids text pairs) :
    ∃ (t0 : Tree) (rest : List (Tree × Tree)), dropLead pairs = t0 :: rest.flatMap (fun p => [p.1, p.2]) ∧ kind t0 = "term" ∧
      UnArgs text t0.children ∧ (∀ p ∈ rest, IsInfix p.1 ∧ kind p.2 = "term") ∧
      (∀ p ∈ rest, UnArgs text p.2.children) ∧ sizeList (dropLead pairs) ≤ sizeList pairs := by
  cases h with
  | mk lead t0 rest hl h0 hu0 hr hur =>
    refine ⟨t0, rest, ?_, h0, hu0, hr, hur, ?_⟩
    · rcases hl with rfl | ⟨l, rfl, hk⟩
      · simp [dropLead, h0]
      · simp [dropLead, hk]
    · rcases hl with rfl | ⟨l, rfl, hk⟩
      · simp [dropLead, h0]
      · simp [dropLead, hk, sizeList]

theorem np_main (extras : Bool) (text : Str) : ∀ f : Nat,
    (∀ pairs, ExprKids text pairs → sizeList pairs + 1 ≤ f → consumeExpr extras text f pairs ≠ .panic) ∧
    (∀ pairs, UnArgs text pairs → sizeList pairs + 1 ≤ f → unaries extras text f pairs ≠ .panic) := by
  intro f
  induction f with
  | zero => exact ⟨fun _ _ h => by omega, fun _ _ h => by omega⟩
  | succ f ih =>
    obtain ⟨ih1, ih2⟩ := ih
    constructor
    · intro pairs hk hfit
      obtain ⟨t0, rest, hd, h0, hu0, hr, hur, hsz⟩ := dropLead_kids hk
      simp only [consumeExpr, consumeExprStep, hd]
      have hfit' : sizeList (t0 :: rest.flatMap fun p => [p.1, p.2]) ≤ f := by rw [← hd]; omega
      apply infixStage_np (unaries extras text f) t0 rest h0 hr
      · apply ih2 _ hu0
        have := size_eq t0
        simp only [sizeList] at hfit'
        omega
      · intro p hp
        apply ih2 _ (hur p hp)
        have h1 := sizeList_flat_mem hp
        have h2 := size_eq p.2
        simp only [sizeList] at hfit'
        omega
    · intro pairs hu hfit
      simp only [unaries, unariesStep]
      cases hu with
      | tagged hg ha hb =>
        rename_i g asg rest
        obtain ⟨x, r, rfl, _⟩ := hb.head
        obtain ⟨body, hbody⟩ := hg
        have : getNodeTag text (g :: asg :: x :: r) = .ok (x, r, some body) := by
          simp [getNodeTag, ha, hbody, orPanic, R3.bind, dropFirstByte, show '#'.utf8Size = 1 from by decide]
        rw [this]
        simp only [R3.bind]
        apply wrapTag_np
        apply nodeOf_np ih1 ih2 hb
        have hg2 : 2 ≤ g.size := by rw [size_eq]; omega
        simp only [sizeList] at hfit ⊢
        omega
      | plain hb =>
        obtain ⟨x, r, rfl, _⟩ := hb.head
        rw [getNodeTag_plain hb]
        simp only [R3.bind]
        apply wrapTag_np
        exact nodeOf_np ih1 ih2 hb (by omega)
      | parenRest he hk hc hp =>
        rename_i e c post
        have : getNodeTag text (e :: c :: post) = .ok (e, c :: post, none) := by simp [getNodeTag, hc]
        rw [this]
        simp only [R3.bind]
        apply wrapTag_np
        simp only [nodeOf, he]
        simp only [show ("expression" = "opening_paren") = False from by decide,
          show ("expression" = "positive_predicate_operator") = False from by decide,
          show ("expression" = "negative_predicate_operator") = False from by decide, if_false, if_true]
        have hsz : sizeList e.children + 1 ≤ f := by
          have := size_eq e
          simp only [sizeList] at hfit
          omega
        exact bind_np (ih1 _ hk hsz) (fun n _ => postfixes_paren_np n hc hp)


theorem exprKids_dropLead {text : Str} {pairs : List Tree} (h : ExprKids text pairs) : ExprKids text (dropLead pairs) := by
  obtain ⟨t0, rest, hd, h0, hu0, hr, hur, _⟩ := dropLead_kids h
  rw [hd]
  have := ExprKids.mk (text := text) [] t0 rest (Or.inl rfl) h0 hu0 hr hur
  simpa using this

theorem exprKids_ne_nil {text : Str} {pairs : List Tree} (h : ExprKids text pairs) : pairs ≠ [] := by
  cases h with
  | mk lead t0 rest _ _ _ _ _ => simp

theorem modifierOf_some {m : Tree} (h : IsModifier m) : (modifierOf (kind m)).isSome ∧ kind m ≠ "opening_brace" := by
  rcases h with h | h | h | h <;> simp [h, modifierOf]

theorem consumeRule_np {extras : Bool} {text : Str} {fuel : Nat} {t : Tree} (h : RuleT text t)
    (hline : ∀ c rest, t.children = c :: rest → kind c ≠ "line_doc") (hfit : t.size ≤ fuel) :
    consumeRule extras text fuel t ≠ .panic := by
  rcases h with ⟨c, rest, hc, hk⟩ | ⟨id, asg, mods, ob, e, cb, hc, hid, ⟨w, hw⟩, hm, hob, he, hk⟩
  · exact absurd hk (hline c rest hc)
  · have hsz : sizeList (dropLead e.children) + 1 ≤ fuel := by
      obtain ⟨_, _, _, _, _, _, _, hle⟩ := dropLead_kids hk
      have h1 : e.size ≤ sizeList t.children := by
        rw [hc]; exact size_le_of_mem (by rcases hm with rfl | ⟨m, rfl, _⟩ <;> simp)
      have h2 := size_eq e
      have h3 := size_eq t
      omega
    have hne := exprKids_ne_nil hk
    have parts : ruleParts text t = .ok (String.ofList w, (match mods with | [] => RuleType.normal | m :: _ => (modifierOf (kind m)).getD .normal), e.children) := by
      rcases hm with rfl | ⟨m, rfl, hmod⟩
      · simp only [ruleParts, hc, List.nil_append, hob, ne_eq, not_true_eq_false, if_false, R3.bind, hw, orPanic]
      · obtain ⟨hs, hne'⟩ := modifierOf_some hmod
        cases hmo : modifierOf (kind m) with
        | none => simp [hmo] at hs
        | some ty =>
          simp only [ruleParts, hc, List.cons_append, List.nil_append, ne_eq, hne', not_false_eq_true, if_true, hmo, orPanic,
            R3.map, R3.bind, hw]
          cases hch : e.children with
          | nil => exact absurd hch hne
          | cons a b => simp
    simp only [consumeRule, parts, R3.bind]
    exact map_np ((np_main extras text fuel).1 _ (exprKids_dropLead hk) hsz)

theorem consumeRulesGo_np {extras : Bool} {text : Str} {fuel : Nat} : ∀ (ts : List Tree),
    (∀ t ∈ ts, kind t = "grammar_rule" → RuleT text t) → (∀ t ∈ ts, t.size ≤ fuel) →
    consumeRulesGo extras text fuel ts ≠ .panic
  | [], _, _ => by simp [consumeRulesGo]
  | t :: ts, h, hf => by
    have ihts := consumeRulesGo_np (extras := extras) (text := text) (fuel := fuel) ts
      (fun x hx => h x (by simp [hx])) (fun x hx => hf x (by simp [hx]))
    simp only [consumeRulesGo]
    split
    · rename_i hk
      have hr := h t (by simp) hk
      cases hch : t.children with
      | nil =>
        rcases hr with ⟨c, rest, hc, _⟩ | ⟨id, asg, mods, ob, e, cb, hc, _⟩ <;> simp [hch] at hc
      | cons c rest =>
        simp only []
        split
        · exact ihts
        · rename_i hnl
          apply bind_np (consumeRule_np hr (fun c' rest' hc' => by rw [hch] at hc'; cases hc'; exact hnl) (hf t (by simp)))
          intro r _
          exact map_np ihts
    · exact ihts

/-- **No panic site of `consume_rules` is reachable on pairs of the shape the meta-grammar produces.** -/
theorem consumeRules_np (extras : Bool) (text : Str) (forest : List Tree) (h : GrammarForest text forest) :
    consumeRules extras text forest ≠ .panic := by
  simp only [consumeRules, consumeRulesWithSpans]
  apply bind_np
  · exact consumeRulesGo_np forest h (fun t ht => by have := size_le_of_mem ht; omega)
  · intro rules _
    split <;> simp


end PestModel.ReaderShape
