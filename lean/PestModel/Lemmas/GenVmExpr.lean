import PestModel.Lemmas.GenVmRep
/-! C02, part 10: the hypotheses of the partial theorem and the shape of the generator's output. -/
namespace PestModel.GenVm
open PestModel.PS PestModel.Stack PestModel.Lower PestModel.G
open PestModel.LineCol (Str isBoundary slice?)
open PestModel.VmRef (Dirty)

def isOptRep : OExpr → Bool
  | .opt _ => true
  | .rep _ => true
  | _ => false

/-- no `#tag = e?` and no `#tag = e*` (the two forms `generate_expr` special-cases). -/
def TagPlain : OExpr → Prop
  | .nodeTag e _ => isOptRep e = false ∧ TagPlain e
  | .posPred e | .negPred e | .opt e | .rep e | .repOnce e | .push e | .restoreOnErr e => TagPlain e
  | .seq a b | .choice a b => TagPlain a ∧ TagPlain b
  | _ => True

/-- the operand of every `e*` cannot fail after popping the stack. -/
def RepClean (rs : List ORule) : OExpr → Prop
  | .rep e => ¬ Dirty rs e ∧ RepClean rs e
  | .posPred e | .negPred e | .opt e | .repOnce e | .push e | .restoreOnErr e | .nodeTag e _ => RepClean rs e
  | .seq a b | .choice a b => RepClean rs a ∧ RepClean rs b
  | _ => True

theorem osize_pos (e : OExpr) : 1 ≤ osize e := by
  cases e <;> simp [osize]

theorem seq_or_not (b : OExpr) : (∃ x y, b = .seq x y) ∨ seqItems b = [b] := by
  cases b <;> first | exact Or.inl ⟨_, _, rfl⟩ | exact Or.inr rfl

theorem choice_or_not (b : OExpr) : (∃ x y, b = .choice x y) ∨ choiceItems b = [b] := by
  cases b <;> first | exact Or.inl ⟨_, _, rfl⟩ | exact Or.inr rfl

section
variable (skipP : Prog) (callP : String → Prog) (ag : Bool) (f : Nat)

theorem gen_str (s : Str) : genExprWith skipP callP ag (f+1) (.str s) = .matchString s := rfl
theorem gen_insens (s : Str) : genExprWith skipP callP ag (f+1) (.insens s) = .matchInsensitive s := rfl
theorem gen_range (a b : Char) : genExprWith skipP callP ag (f+1) (.range a b) = .matchRange a b := rfl
theorem gen_ident (n : String) : genExprWith skipP callP ag (f+1) (.ident n) = callP n := rfl
theorem gen_peekSlice (a : Int) (b : Option Int) :
    genExprWith skipP callP ag (f+1) (.peekSlice a b) = .stackMatchPeekSlice a b .bottomToTop := rfl
theorem gen_posPred (e : OExpr) :
    genExprWith skipP callP ag (f+1) (.posPred e) = .lookahead true (genExprWith skipP callP ag f e) := rfl
theorem gen_negPred (e : OExpr) :
    genExprWith skipP callP ag (f+1) (.negPred e) = .lookahead false (genExprWith skipP callP ag f e) := rfl
theorem gen_opt (e : OExpr) :
    genExprWith skipP callP ag (f+1) (.opt e) = .optional (genExprWith skipP callP ag f e) := rfl
theorem gen_skip (ss : List Str) : genExprWith skipP callP ag (f+1) (.skip ss) = .skipUntil ss := rfl
theorem gen_push (e : OExpr) :
    genExprWith skipP callP ag (f+1) (.push e) = .stackPush (genExprWith skipP callP ag f e) := rfl
theorem gen_pushLiteral (s : Str) :
    genExprWith skipP callP ag (f+1) (.pushLiteral s) = .stackPushLiteral s := rfl
theorem gen_restoreOnErr (e : OExpr) :
    genExprWith skipP callP ag (f+1) (.restoreOnErr e) = .restoreOnErr (genExprWith skipP callP ag f e) := rfl

theorem gen_seq (a b : OExpr) :
    genExprWith skipP callP ag (f+1) (.seq a b) =
      .sequence ((seqItems b).foldl (seqStep ag skipP (genExprWith skipP callP ag f))
        (genExprWith skipP callP ag f a)) := rfl

theorem gen_choice (a b : OExpr) :
    genExprWith skipP callP ag (f+1) (.choice a b) =
      (choiceItems b).foldl (fun acc t => Prog.orElse acc (genExprWith skipP callP ag f t))
        (genExprWith skipP callP ag f a) := rfl

theorem gen_rep_atomic (e : OExpr) :
    genExprWith skipP callP true (f+1) (.rep e) = .repeat_ (genExprWith skipP callP true f e) := rfl

theorem gen_rep_plain (e : OExpr) :
    genExprWith skipP callP false (f+1) (.rep e) =
      .sequence (.optional (.andThen (genExprWith skipP callP false f e)
        (.repeat_ (.sequence (.andThen skipP (genExprWith skipP callP false f e)))))) := rfl

theorem gen_repOnce_atomic (e : OExpr) :
    genExprWith skipP callP true (f+1) (.repOnce e) =
      .sequence (.andThen (genExprWith skipP callP true f e)
        (.repeat_ (.sequence (genExprWith skipP callP true f e)))) := rfl

theorem gen_repOnce_plain (e : OExpr) :
    genExprWith skipP callP false (f+1) (.repOnce e) =
      .sequence (.andThen (genExprWith skipP callP false f e)
        (.repeat_ (.sequence (.andThen skipP (genExprWith skipP callP false f e))))) := rfl

theorem gen_nodeTag (e : OExpr) (t : Str) (h : isOptRep e = false) :
    genExprWith skipP callP ag (f+1) (.nodeTag e t) =
      .andThen (genExprWith skipP callP ag f e) (.tagNode t) := by
  cases e <;> first | rfl | (simp [isOptRep] at h)

end

end PestModel.GenVm
