import PestModel.Model.Ref
/-
C08 — the reference semantics instrumented with the tree of rule calls (which rule was tried
where, whether it matched, under which predicate polarity, and whether it is reportable), and the
specification of the failure report as a function of that tree.
-/
namespace PestModel.RefTrace
open PestModel.G PestModel.Ref
open PestModel.LineCol (Str bLen cLen splitAt?)
open PestModel.PS (Atomicity CharSet restAt eqIgnoreAsciiCase normalizeIndex)

/-- predicate context: none, inside a positive, inside a negative (after cancelling pairs). -/
inductive LA where
  | none | pos | neg
  deriving Repr, DecidableEq

def LA.enterPos : LA → LA
  | .neg => .neg
  | _ => .pos
def LA.enterNeg : LA → LA
  | .neg => .pos
  | _ => .neg

/-- one rule call: rule id, start position, matched?, negative context?, reportable (the rule is
not silent and the call is not in an atomic interior)?, the calls made inside it. -/
inductive Call where
  | node (rule pos : Nat) (matched neg reportable : Bool) (children : List Call)
  deriving Repr

inductive R where
  | ok (s : St)
  | fail
  | stuck
  | fuel
  deriving Repr, DecidableEq

abbrev T := R × List Call

def oneChar (c : Ctx) (s : St) (p : Char → Bool) : T :=
  match restAt c.input s.pos with
  | some (ch :: _) => if p ch then (.ok { s with pos := s.pos + cLen ch }, []) else (.fail, [])
  | _ => (.fail, [])

def lit (c : Ctx) (s : St) (str : Str) : T :=
  match restAt c.input s.pos with
  | some rest => if str.isPrefixOf rest then (.ok { s with pos := s.pos + bLen str }, []) else (.fail, [])
  | none => (.fail, [])

/-- atomicity seen by `ParserState::rule` when the rule is entered. -/
def modeAtRule (name : String) (ty : RuleType) (m : Atomicity) : Atomicity :=
  match ty with
  | .compound => .compound
  | .nonAtomic => .nonAtomic
  | _ => if name = "WHITESPACE" ∨ name = "COMMENT" then m else m

mutual
  def denoteT (c : Ctx) : Nat → Atomicity → LA → Expr → St → T
    | 0, _, _, _, _ => (.fuel, [])
    | fuel + 1, m, la, e, s =>
      match e with
      | .str str => lit c s str
      | .insens str =>
        match restAt c.input s.pos with
        | some rest =>
          match splitAt? rest (bLen str) with
          | some (pre, _) => if eqIgnoreAsciiCase pre str then (.ok { s with pos := s.pos + bLen str }, []) else (.fail, [])
          | none => (.fail, [])
        | none => (.fail, [])
      | .range a b => oneChar c s (fun ch => a ≤ ch ∧ ch ≤ b)
      | .ident n => callT c fuel m la n s
      | .peekSlice a b =>
        let len := s.stack.length
        match normalizeIndex a len, (match b with | some e => normalizeIndex e len | none => some len) with
        | some i, some j =>
          if j ≤ i then (.ok s, []) else
          match matchStrs c.input ((s.stack.reverse.drop i).take (j - i)) s.pos with
          | some p => (.ok { s with pos := p }, [])
          | none => (.fail, [])
        | _, _ => (.fail, [])
      | .posPred e =>
        match denoteT c fuel m la.enterPos e s with
        | (.ok _, cs) => (.ok s, cs)
        | r => r
      | .negPred e =>
        match denoteT c fuel m la.enterNeg e s with
        | (.ok _, cs) => (.fail, cs)
        | (.fail, cs) => (.ok s, cs)
        | r => r
      | .seq a b =>
        match denoteT c fuel m la a s with
        | (.ok s1, c1) =>
          match skipT c fuel m la s1 with
          | (.ok s2, c2) =>
            match denoteT c fuel m la b s2 with
            | (r, c3) => (r, c1 ++ c2 ++ c3)
          | (r, c2) => (r, c1 ++ c2)
        | r => r
      | .choice a b =>
        match denoteT c fuel m la a s with
        | (.fail, c1) => match denoteT c fuel m la b s with | (r, c2) => (r, c1 ++ c2)
        | r => r
      | .opt e =>
        match denoteT c fuel m la e s with
        | (.fail, c1) => (.ok s, c1)
        | r => r
      | .rep e =>
        match denoteT c fuel m la e s with
        | (.ok s1, c1) => repLoopT c fuel m la e s1 c1
        | (.fail, c1) => (.ok s, c1)
        | r => r
      | .repOnce e =>
        if c.extras then
          match denoteT c fuel m la e s with
          | (.ok s1, c1) => repLoopT c fuel m la e s1 c1
          | r => r
        else denoteT c fuel m la (.seq e (.rep e)) s
      | .skip strs =>
        match restAt c.input s.pos with
        | some rest => (.ok { s with pos := search strs rest s.pos }, [])
        | none => (.fail, [])
      | .push e =>
        match denoteT c fuel m la e s with
        | (.ok s1, c1) =>
          match PestModel.LineCol.slice? c.input s.pos s1.pos with
          | some str => (.ok { s1 with stack := str :: s1.stack }, c1)
          | none => (.stuck, c1)
        | r => r
      | .pushLiteral str => (.ok { s with stack := str :: s.stack }, [])
      | .nodeTag e _ => denoteT c fuel m la e s
      | .repExact e n =>
        match seqOfList (List.replicate n e) with
        | some u => denoteT c fuel m la u s
        | none => (.stuck, [])
      | .repMin e n =>
        match seqOfList (List.replicate n e ++ [.rep e]) with
        | some u => denoteT c fuel m la u s
        | none => (.stuck, [])
      | .repMax e n =>
        match seqOfList (List.replicate n (.opt e)) with
        | some u => denoteT c fuel m la u s
        | none => (.stuck, [])
      | .repMinMax e lo hi =>
        match seqOfList ((List.range hi).map fun i => if i + 1 ≤ lo then e else .opt e) with
        | some u => denoteT c fuel m la u s
        | none => (.stuck, [])
  def repLoopT (c : Ctx) : Nat → Atomicity → LA → Expr → St → List Call → T
    | 0, _, _, _, _, acc => (.fuel, acc)
    | fuel + 1, m, la, e, s, acc =>
      match skipT c fuel m la s with
      | (.ok s1, c1) =>
        match denoteT c fuel m la e s1 with
        | (.ok s2, c2) => repLoopT c fuel m la e s2 (acc ++ c1 ++ c2)
        | (.fail, c2) => (.ok s, acc ++ c1 ++ c2)
        | (r, c2) => (r, acc ++ c1 ++ c2)
      | (.fail, c1) => (.ok s, acc ++ c1)
      | (r, c1) => (r, acc ++ c1)
  def skipT (c : Ctx) : Nat → Atomicity → LA → St → T
    | 0, _, _, _ => (.fuel, [])
    | fuel + 1, m, la, s =>
      if m ≠ .nonAtomic then (.ok s, []) else
      match c.has "WHITESPACE", c.has "COMMENT" with
      | false, false => (.ok s, [])
      | true, false => starT c fuel la "WHITESPACE" s []
      | false, true => starT c fuel la "COMMENT" s []
      | true, true =>
        match starT c fuel la "WHITESPACE" s [] with
        | (.ok s1, c1) => commentLoopT c fuel la s1 c1
        | r => r
  def starT (c : Ctx) : Nat → LA → String → St → List Call → T
    | 0, _, _, _, acc => (.fuel, acc)
    | fuel + 1, la, name, s, acc =>
      match callT c fuel .nonAtomic la name s with
      | (.ok s1, c1) => starT c fuel la name s1 (acc ++ c1)
      | (.fail, c1) => (.ok s, acc ++ c1)
      | (r, c1) => (r, acc ++ c1)
  def commentLoopT (c : Ctx) : Nat → LA → St → List Call → T
    | 0, _, _, acc => (.fuel, acc)
    | fuel + 1, la, s, acc =>
      match callT c fuel .nonAtomic la "COMMENT" s with
      | (.ok s1, c1) =>
        match starT c fuel la "WHITESPACE" s1 [] with
        | (.ok s2, c2) => commentLoopT c fuel la s2 (acc ++ c1 ++ c2)
        | (r, c2) => (r, acc ++ c1 ++ c2)
      | (.fail, c1) => (.ok s, acc ++ c1)
      | (r, c1) => (r, acc ++ c1)
  def callT (c : Ctx) : Nat → Atomicity → LA → String → St → T
    | 0, _, _, _, _ => (.fuel, [])
    | fuel + 1, m, la, name, s =>
      let neg := la = .neg
      match c.rule? name with
      | some (id, r) =>
        match denoteT c fuel (bodyMode r.name r.ty m) la r.expr s with
        | (res, kids) =>
          if r.ty = .silent then (res, kids) else
          let matched := match res with | .ok _ => true | _ => false
          (res, [.node id s.pos matched neg (modeAtRule r.name r.ty m ≠ .atomic) kids])
      | none =>
        let rng := fun (a b : Char) => oneChar c s (fun ch => a ≤ ch ∧ ch ≤ b)
        match name with
        | "ANY" => oneChar c s (fun _ => true)
        | "SOI" => if s.pos = 0 then (.ok s, []) else (.fail, [])
        | "EOI" =>
          let ok := s.pos = bLen c.input
          ((if ok then .ok s else .fail), [.node c.rules.length s.pos ok neg (m ≠ .atomic) []])
        | "PEEK" => match s.stack with | [] => (.stuck, []) | top :: _ => lit c s top
        | "POP" =>
          match s.stack with
          | [] => (.stuck, [])
          | top :: rest => match lit c s top with | (.ok s1, cs) => (.ok { s1 with stack := rest }, cs) | r => r
        | "PEEK_ALL" => match matchStrs c.input s.stack s.pos with | some p => (.ok { s with pos := p }, []) | none => (.fail, [])
        | "POP_ALL" => match matchStrs c.input s.stack s.pos with | some p => (.ok { pos := p, stack := [] }, []) | none => (.fail, [])
        | "DROP" => match s.stack with | [] => (.fail, []) | _ :: rest => (.ok { s with stack := rest }, [])
        | "ASCII_DIGIT" => rng '0' '9'
        | "ASCII_NONZERO_DIGIT" => rng '1' '9'
        | "ASCII_BIN_DIGIT" => rng '0' '1'
        | "ASCII_OCT_DIGIT" => rng '0' '7'
        | "ASCII_HEX_DIGIT" => oneChar c s (fun ch => ('0' ≤ ch ∧ ch ≤ '9') ∨ ('a' ≤ ch ∧ ch ≤ 'f') ∨ ('A' ≤ ch ∧ ch ≤ 'F'))
        | "ASCII_ALPHA_LOWER" => rng 'a' 'z'
        | "ASCII_ALPHA_UPPER" => rng 'A' 'Z'
        | "ASCII_ALPHA" => oneChar c s (fun ch => ('a' ≤ ch ∧ ch ≤ 'z') ∨ ('A' ≤ ch ∧ ch ≤ 'Z'))
        | "ASCII_ALPHANUMERIC" => oneChar c s (fun ch => ('a' ≤ ch ∧ ch ≤ 'z') ∨ ('A' ≤ ch ∧ ch ≤ 'Z') ∨ ('0' ≤ ch ∧ ch ≤ '9'))
        | "ASCII" => rng '\x00' '\x7f'
        | "NEWLINE" =>
          match lit c s ['\n'] with
          | (.fail, _) => (match lit c s ['\r', '\n'] with | (.fail, _) => lit c s ['\r'] | r => r)
          | r => r
        | _ =>
          match c.uni name with
          | some cs => oneChar c s cs.mem
          | none => (.stuck, [])
end

/-! ### The specification of the failure report, as a function of the call tree -/

/-- a call is a *reported attempt*: reportable, and it failed outside negation or matched under it. -/
def isAttempt : Call → Bool
  | .node _ _ matched neg reportable _ => reportable && ((!neg && !matched) || (neg && matched))

mutual
  /-- furthest position of a reported attempt (0 if none). -/
  def furthest : Call → Nat
    | .node r pos matched neg reportable kids =>
      max (if isAttempt (.node r pos matched neg reportable kids) then pos else 0) (furthestList kids)
  def furthestList : List Call → Nat
    | [] => 0
    | c :: cs => max (furthest c) (furthestList cs)
end

mutual
  /-- the attempts at position `P` that survive: a failing (or negated-matching) rule stands for
  the attempts made inside it at the same position, unless exactly one was made. -/
  def surviving (P : Nat) : Call → List (Nat × Bool)
    | .node r pos matched neg reportable kids =>
      let inner := survivingList P kids
      if isAttempt (.node r pos matched neg reportable kids) && pos == P then
        (if inner.length = 1 then inner else [(r, neg)])
      else inner
  def survivingList (P : Nat) : List Call → List (Nat × Bool)
    | [] => []
    | c :: cs => surviving P c ++ survivingList P cs
end

/-- `(position, expected rules, unexpected rules)` as rule ids, unsorted. -/
def specReport (calls : List Call) : Nat × List Nat × List Nat :=
  let P := furthestList calls
  let sv := survivingList P calls
  (P, (sv.filter (!·.2)).map (·.1), (sv.filter (·.2)).map (·.1))

mutual
  /-- every reported attempt at position `P` anywhere in the tree: (rule, under negation). -/
  def callAttemptsAt (P : Nat) : Call → List (Nat × Bool)
    | .node r pos matched neg reportable kids =>
      (if isAttempt (.node r pos matched neg reportable kids) && pos == P then [(r, neg)] else []) ++ callAttemptsAtList P kids
  def callAttemptsAtList (P : Nat) : List Call → List (Nat × Bool)
    | [] => []
    | c :: cs => callAttemptsAt P c ++ callAttemptsAtList P cs
end

/-- `(furthest position, all rules that failed there outside negation, all rules that matched there
under negation)`: what a sound report may draw its expected / unexpected rules from. -/
def allAttempts (calls : List Call) : Nat × List Nat × List Nat :=
  let P := furthestList calls
  let ats := callAttemptsAtList P calls
  (P, (ats.filter (!·.2)).map (·.1), (ats.filter (·.2)).map (·.1))

def traceMeaning (rules : List Rule) (extras : Bool) (uni : String → Option CharSet) (fuel : Nat)
    (rule : String) (input : Str) : T :=
  callT { rules, input, extras, uni } fuel .nonAtomic .none rule ⟨0, []⟩

end PestModel.RefTrace
