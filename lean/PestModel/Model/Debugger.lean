/-
L11 — the debugger protocol of `debugger/src/lib.rs` as a labelled transition system.

Two threads share: the flag `is_done`, the breakpoint set (under a mutex), a bounded channel, and the
parser thread's park token. The parse itself is abstracted to the finite list of rule entries
`(rule, pos)` that `Vm::parse_rule` reports to the listener, followed by the final outcome
(`Eof` / `Error`); C01 relates that list to the VM. Once the listener has returned `true` the VM
fails the rule being entered; the enclosing expressions go on (every further
rule entry asks the listener again, which answers `true` again) and the parse ends with `Ok`, with `Err`
or with a panic of the parser thread (`rule()` indexing the fresh state's empty queue: what happened before the repair
dc3964d, after which the VM fails the rule on the state it was given; the outcome stays in the model so that the check can
represent — and report — a regression; `Thm/C17.restart_starts_new_run` is about runs without it).
What happens after an abort at entry `k` is a function of grammar and input, given to the model as
`abortInfo[k] = (further listener calls, outcome)`.

Assumptions recorded in the trusted base: `thread::park` does not return spuriously; the channel
has capacity ≥ 1; a runnable thread eventually runs (fairness) for the liveness statement.
-/
namespace PestModel.Dbg

abbrev Rule := Nat

inductive Event where
  | breakpoint (r : Rule) (pos : Nat)
  | eof
  | error
  deriving Repr, DecidableEq

/-- how a parse ends. -/
inductive Outcome where
  | ok | err | panic
  deriving Repr, DecidableEq

/-- program counter of the parser thread; `k` = index of the entry being reported. -/
inductive PPc where
  | checkDone (k : Nat)      -- `if is_done.load() { return true }`
  | lockBps (k : Nat)        -- `breakpoints.lock().contains(rule)`
  | send (k : Nat)           -- `rsender.send(Breakpoint(rule, pos))`
  | park (k : Nat)           -- `thread::park()`
  | abortCheck (left : Nat) (o : Outcome)  -- a further listener call of an aborted parse (`is_done.load()` again)
  | checkCancel (ok : Bool)  -- after `vm.parse`: `if is_done.load() { return }`
  | finishSend (ok : Bool)   -- `sender.send(Eof | Error)`
  | setDone                  -- `is_done.store(true)`
  | exited (panicked : Bool)
  deriving Repr, DecidableEq

/-- controller commands (the public API) and the micro-steps of `run`. -/
inductive Cmd where
  | run
  | cont
  | add (r : Rule)
  | del (r : Rule)
  | clear                   -- `delete_all_breakpoints`
  | recv                    -- `receiver.recv()` of the current run's channel (blocks while it is empty)
  deriving Repr, DecidableEq

inductive CPc where
  | idle                    -- between commands
  | runLoadDone             -- `if !is_done.load()`
  | runStoreDone            -- `is_done.store(true)`
  | runUnpark               -- `handle.thread().unpark()`
  | runJoin                 -- `handle.join()`
  | runStoreFalse           -- `is_done.store(false)`
  | runSpawn                -- `thread::spawn(…)`
  | contLoadDone            -- `if is_done.load() { return Err(EofReached) }`
  | contUnpark
  deriving Repr, DecidableEq

/-- what a `recv` of the controller observed. -/
inductive RecvObs where
  | ev (e : Event)
  | closed                   -- the channel is empty and every sender is gone (the thread has exited)
  | norun                    -- there is no run
  deriving Repr, DecidableEq

/-- one parser thread (one run). -/
structure Thread where
  pc : PPc
  token : Bool               -- park token
  chan : List Event          -- this run's channel (oldest first), capacity `cap`
  sent : List Event          -- everything this run has sent so far (ghost)
  unparks : Nat              -- how many unparks this thread has been issued (ghost)
  deriving Repr, DecidableEq

structure State where
  entries : List (Rule × Nat)   -- the rule entries of the (deterministic) parse
  finalOk : Bool                -- the parse ends with `Eof` (else `Error`)
  abortInfo : List (Nat × Outcome)  -- per entry `k`: what follows when the listener first answers `true` there
  cap : Nat                     -- channel capacity
  isDone : Bool
  bps : List Rule
  cur : Option Thread           -- the run in progress / last run (the controller holds its handle)
  old : List Thread             -- runs that have been joined (ghost)
  cpc : CPc
  todo : List Cmd               -- commands still to be issued by the controller
  received : List Event         -- ghost: events the controller has received from the run in progress
  bpsAt : List (List Rule)      -- ghost: the breakpoint set as it was at each `lockBps` step of the current run
  rets : List String            -- ghost: what `run` / `cont` returned, in order
  recvLog : List RecvObs        -- ghost: everything `recv` returned, over all runs
  cleanRestart : Bool           -- ghost: when the last `run` command was issued, the run's channel was empty and no wake-up was outstanding except at a `park`
  deriving Repr, DecidableEq

def Thread.fresh : Thread := ⟨.checkDone 0, false, [], [], 0⟩

def State.init (entries : List (Rule × Nat)) (finalOk : Bool) (abortInfo : List (Nat × Outcome)) (cap : Nat) (bps : List Rule)
    (todo : List Cmd) : State :=
  { entries, finalOk, abortInfo, cap, isDone := false, bps, cur := none, old := [], cpc := .idle, todo, received := [], bpsAt := [],
    rets := [], recvLog := [], cleanRestart := true }

/-- where the parser goes after finishing entry `k`. -/
def nextEntry (s : State) (k : Nat) : PPc :=
  if k + 1 < s.entries.length then .checkDone (k + 1) else .checkCancel s.finalOk

/-- the end of an aborted parse. -/
def endWith : Outcome → PPc
  | .ok => .checkCancel true
  | .err => .checkCancel false
  | .panic => .exited true

/-- a step of the parser thread (`none` = blocked or finished). -/
def parserStep (s : State) : Option State :=
  match s.cur with
  | none => none
  | some t =>
    let upd := fun (t' : Thread) => some { s with cur := some t' }
    match t.pc with
    | .checkDone k =>
      if k ≥ s.entries.length then upd { t with pc := .checkCancel s.finalOk }       -- empty parse
      else if s.isDone then
        -- the listener answers `true`: the VM aborts
        match s.abortInfo[k]?.getD (0, .err) with
        | (0, o) => upd { t with pc := endWith o }
        | (n + 1, o) => upd { t with pc := .abortCheck (n + 1) o }
      else upd { t with pc := .lockBps k }
    | .abortCheck n o =>
      -- `is_done` is still set (`abort_isDone`): the listener answers `true` again
      if n ≤ 1 then upd { t with pc := endWith o } else upd { t with pc := .abortCheck (n - 1) o }
    | .lockBps k =>
      match s.entries[k]? with
      | some (r, _) =>
        some { s with cur := some { t with pc := if s.bps.contains r then .send k else nextEntry s k },
                      bpsAt := s.bpsAt ++ [s.bps] }
      | none => none
    | .send k =>
      match s.entries[k]? with
      | some (r, p) =>
        if t.chan.length < s.cap then
          upd { t with pc := .park k, chan := t.chan ++ [.breakpoint r p], sent := t.sent ++ [.breakpoint r p] }
        else none                                  -- `send` blocks while the channel is full
      | none => none
    | .park k =>
      if t.token then upd { t with pc := nextEntry s k, token := false } else none   -- parked
    | .checkCancel ok =>
      -- a cancelled run exits without reporting its outcome
      if s.isDone then upd { t with pc := .exited false } else upd { t with pc := .finishSend ok }
    | .finishSend ok =>
      let ev := if ok then Event.eof else .error
      if t.chan.length < s.cap then upd { t with pc := .setDone, chan := t.chan ++ [ev], sent := t.sent ++ [ev] }
      else none
    | .setDone => some { s with cur := some { t with pc := .exited false }, isDone := true }
    | .exited _ => none

/-- a step of the controller (`none` = blocked or nothing to do). -/
def controllerStep (s : State) : Option State :=
  match s.cpc with
  | .idle =>
    match s.todo with
    | [] => none
    | .run :: rest =>
      match s.cur with
      | some t =>
        some { s with cpc := .runLoadDone, todo := rest,
                      cleanRestart := t.chan.isEmpty && (!t.token || (match t.pc with | .park _ => true | _ => false)) }
      | none => some { s with cpc := .runStoreFalse, todo := rest }
    | .cont :: rest => some { s with cpc := .contLoadDone, todo := rest }
    | .add r :: rest => some { s with bps := if s.bps.contains r then s.bps else r :: s.bps, todo := rest }
    | .del r :: rest => some { s with bps := s.bps.filter (· ≠ r), todo := rest }
    | .clear :: rest => some { s with bps := [], todo := rest }
    | .recv :: rest =>
      match s.cur with
      | some t =>
        match t.chan with
        | ev :: more =>
          some { s with cur := some { t with chan := more }, received := s.received ++ [ev], recvLog := s.recvLog ++ [.ev ev], todo := rest }
        | [] =>
          match t.pc with
          | .exited _ => some { s with recvLog := s.recvLog ++ [.closed], todo := rest }   -- `RecvError`: all senders dropped
          | _ => none                             -- blocks
      | none => some { s with recvLog := s.recvLog ++ [.norun], todo := rest }
  | .runLoadDone => some { s with cpc := if s.isDone then .runJoin else .runStoreDone }
  | .runStoreDone => some { s with cpc := .runUnpark, isDone := true }
  | .runUnpark =>
    match s.cur with
    | some t => some { s with cpc := .runJoin, cur := some { t with token := true, unparks := t.unparks + 1 } }
    | none => none
  | .runJoin =>
    match s.cur with
    | some t =>
      match t.pc with
      | .exited false => some { s with cpc := .runStoreFalse, cur := none, old := s.old ++ [t] }
      -- `handle.join().map_err(PreviousRunPanic)?`: `run` returns the error and starts nothing
      | .exited true => some { s with cpc := .idle, cur := none, old := s.old ++ [t], rets := s.rets ++ ["run:panic"] }
      | _ => none                                   -- `join` blocks until the thread has exited
    | none => none
  | .runStoreFalse => some { s with cpc := .runSpawn, isDone := false }
  | .runSpawn => some { s with cpc := .idle, cur := some Thread.fresh, bpsAt := [], received := [], rets := s.rets ++ ["run:ok"] }
  | .contLoadDone =>
    if s.isDone then some { s with cpc := .idle, rets := s.rets ++ ["cont:eof"] } else some { s with cpc := .contUnpark }
  | .contUnpark =>
    match s.cur with
    | some t => some { s with cpc := .idle, cur := some { t with token := true, unparks := t.unparks + 1 }, rets := s.rets ++ ["cont:ok"] }
    | none => some { s with cpc := .idle, rets := s.rets ++ ["cont:norun"] }

/-- who moves: `false` = controller, `true` = parser thread. -/
abbrev Sched := List Bool

/-- run a schedule; steps of a blocked party are skipped (stuttering). -/
def exec (s : State) : Sched → State
  | [] => s
  | false :: rest => exec ((controllerStep s).getD s) rest
  | true :: rest => exec ((parserStep s).getD s) rest

/-- one step of either party. -/
def Step (s s' : State) : Prop := controllerStep s = some s' ∨ parserStep s = some s'

/-- reachability. -/
inductive Reach (s0 : State) : State → Prop where
  | refl : Reach s0 s0
  | step {s s'} : Reach s0 s → Step s s' → Reach s0 s'

/-- the breakpoint events the parse would deliver for the breakpoint sets seen at each entry. -/
def expectedEvents (entries : List (Rule × Nat)) (bpsAt : List (List Rule)) : List Event :=
  (entries.zip bpsAt).filterMap fun ((r, p), bps) => if bps.contains r then some (.breakpoint r p) else none

def isBreakpoint : Event → Bool
  | .breakpoint _ _ => true
  | _ => false

end PestModel.Dbg
