import PestModel.Lemmas.DebuggerCtrl
namespace PestModel.Dbg

/-- the parser thread, running alone, exits after finitely many non-blocking steps. -/
inductive Halts : State → Prop where
  | done {s t p} : s.cur = some t → t.pc = .exited p → Halts s
  | step {s s'} : parserStep s = some s' → Halts s' → Halts s

theorem halts_checkCancel {s : State} {t : Thread} {ok : Bool} (hc : s.cur = some t) (hd : s.isDone = true)
    (hpc : t.pc = .checkCancel ok) : Halts s := by
  refine .step (s' := { s with cur := some { t with pc := .exited false } }) ?_ (.done (p := false) rfl rfl)
  simp [parserStep, hc, hpc, hd]

theorem halts_endWith {s : State} {t : Thread} {o : Outcome} (hc : s.cur = some t) (hd : s.isDone = true)
    (hpc : t.pc = endWith o) : Halts s := by
  cases o
  · exact halts_checkCancel hc hd hpc
  · exact halts_checkCancel hc hd hpc
  · exact .done hc hpc

theorem halts_abortCheck {n : Nat} : ∀ {s : State} {t : Thread} {o : Outcome}, s.cur = some t → s.isDone = true →
    t.pc = .abortCheck n o → Halts s := by
  induction n using Nat.strongRecOn with
  | _ n ih =>
    intro s t o hc hd hpc
    by_cases hn : n ≤ 1
    · refine .step (s' := { s with cur := some { t with pc := endWith o } }) ?_ (halts_endWith (o := o) rfl hd rfl)
      simp [parserStep, hc, hpc, hn]
    · refine .step (s' := { s with cur := some { t with pc := .abortCheck (n - 1) o } }) ?_
        (ih (n - 1) (by omega) (o := o) rfl hd rfl)
      simp [parserStep, hc, hpc, hn]

theorem halts_checkDone {s : State} {t : Thread} {k : Nat} (hc : s.cur = some t) (hd : s.isDone = true)
    (hpc : t.pc = .checkDone k) : Halts s := by
  by_cases hk : k ≥ s.entries.length
  · refine .step (s' := { s with cur := some { t with pc := .checkCancel s.finalOk } }) ?_
      (halts_checkCancel (ok := s.finalOk) rfl hd rfl)
    simp [parserStep, hc, hpc, hk]
  · rcases hab : s.abortInfo[k]?.getD (0, .err) with ⟨n, o⟩
    cases n with
    | zero =>
      refine .step (s' := { s with cur := some { t with pc := endWith o } }) ?_ (halts_endWith (o := o) rfl hd rfl)
      simp [parserStep, hc, hpc, hk, hd, hab]
    | succ n =>
      refine .step (s' := { s with cur := some { t with pc := .abortCheck (n + 1) o } }) ?_
        (halts_abortCheck (o := o) rfl hd rfl)
      simp [parserStep, hc, hpc, hk, hd, hab]

theorem halts_nextEntry {s : State} {t : Thread} {k : Nat} (hc : s.cur = some t) (hd : s.isDone = true)
    (hpc : t.pc = nextEntry s k) : Halts s := by
  unfold nextEntry at hpc
  split at hpc
  · exact halts_checkDone hc hd hpc
  · exact halts_checkCancel hc hd hpc

theorem halts_park {s : State} {t : Thread} {k : Nat} (hc : s.cur = some t) (hd : s.isDone = true)
    (hpc : t.pc = .park k) (ht : t.token = true) : Halts s := by
  refine .step (s' := { s with cur := some { t with pc := nextEntry s k, token := false } }) ?_
    (halts_nextEntry (k := k) rfl hd rfl)
  simp [parserStep, hc, hpc, ht]

theorem halts_send {s : State} {t : Thread} {k : Nat} (hc : s.cur = some t) (hd : s.isDone = true) (hcap : 0 < s.cap)
    (hpc : t.pc = .send k) (hk : k < s.entries.length) (hch : t.chan = []) (ht : t.token = true) : Halts s := by
  rcases he : s.entries[k]? with _ | ⟨r, p⟩
  · simp at he; omega
  · refine .step (s' := { s with cur := some { t with pc := .park k, chan := t.chan ++ [.breakpoint r p], sent := t.sent ++ [.breakpoint r p] } }) ?_ (halts_park (k := k) rfl hd rfl ht)
    simp [parserStep, hc, hpc, he, hch, hcap]

theorem halts_lockBps {s : State} {t : Thread} {k : Nat} (hc : s.cur = some t) (hd : s.isDone = true) (hcap : 0 < s.cap)
    (hpc : t.pc = .lockBps k) (hk : k < s.entries.length) (hch : t.chan = []) (ht : t.token = true) : Halts s := by
  rcases he : s.entries[k]? with _ | ⟨r, p⟩
  · simp at he; omega
  · refine .step (s' := { s with cur := some { t with pc := if s.bps.contains r then .send k else nextEntry s k }, bpsAt := s.bpsAt ++ [s.bps] }) ?_ ?_
    · simp [parserStep, hc, hpc, he]
    · by_cases hb : r ∈ s.bps
      · exact halts_send (k := k) rfl hd hcap (by simp [hb]) hk hch ht
      · exact halts_nextEntry (k := k) rfl hd (by simp [hb, nextEntry])

theorem halts_setDone {s : State} {t : Thread} (hc : s.cur = some t) (hpc : t.pc = .setDone) : Halts s := by
  refine .step (s' := { s with cur := some { t with pc := .exited false }, isDone := true }) ?_ (.done (p := false) rfl rfl)
  simp [parserStep, hc, hpc]

theorem halts_finishSend {s : State} {t : Thread} {ok : Bool} (hc : s.cur = some t) (hcap : 0 < s.cap)
    (hpc : t.pc = .finishSend ok) (hch : t.chan = []) : Halts s := by
  refine .step (s' := { s with cur := some { t with pc := .setDone, chan := t.chan ++ [if ok then Event.eof else .error], sent := t.sent ++ [if ok then Event.eof else .error] } }) ?_ (halts_setDone rfl rfl)
  simp [parserStep, hc, hpc, hch, hcap]

/-- at `join` after a clean restart the thread exits on its own. -/
theorem halts_of_inv {s : State} (hi : Inv s) (hj : s.cpc = .runJoin) (hcl : s.cleanRestart = true) : Halts s := by
  have hd := hi.doneLate (Or.inr hj)
  have hcap := hi.cap_pos
  cases hc : s.cur with
  | none => exact absurd hc (hi.hasCur (by simp [hj]))
  | some t =>
    have hg := hi.rG t hc hcl hj
    have hp := hi.pcData t hc
    cases hpc : t.pc with
    | checkDone k => exact halts_checkDone hc hd hpc
    | lockBps k =>
      simp [RG, hpc, needsEmpty, needsTok, PcData] at hg hp
      exact halts_lockBps hc hd hcap hpc hp.2.1 hg.1 hg.2
    | send k =>
      simp [RG, hpc, needsEmpty, needsTok, PcData] at hg hp
      exact halts_send hc hd hcap hpc hp.2.1 hg.1 hg.2
    | park k =>
      simp [RG, hpc, needsEmpty, needsTok] at hg
      exact halts_park hc hd hpc hg
    | abortCheck n o => exact halts_abortCheck hc hd hpc
    | checkCancel ok => exact halts_checkCancel hc hd hpc
    | finishSend ok =>
      simp [RG, hpc, needsEmpty, needsTok] at hg
      exact halts_finishSend hc hcap hpc hg
    | setDone => exact halts_setDone hc hpc
    | exited p => exact .done hc hpc

end PestModel.Dbg
