import PestModel.Lemmas.ViewsLayout
/-! Helper lemmas for C04: the `Tokens` iterator. -/
namespace PestModel.Views
open PestModel.PS (QTok)
open PestModel.LineCol (Str)

/-- `f a, f (a+1), …` are exactly the elements of the list. -/
def SeqAt {α : Type} (f : Nat → Option α) : Nat → List α → Prop
  | _, [] => True
  | a, x :: xs => f a = some x ∧ SeqAt f (a + 1) xs

theorem SeqAt.append {α : Type} {f : Nat → Option α} {xs ys : List α} : ∀ {a : Nat},
    SeqAt f a (xs ++ ys) ↔ SeqAt f a xs ∧ SeqAt f (a + xs.length) ys := by
  induction xs with
  | nil => intro a; simp [SeqAt]
  | cons x xs ih =>
    intro a
    simp only [List.cons_append, SeqAt, ih, List.length_cons]
    have : a + 1 + xs.length = a + (xs.length + 1) := by omega
    rw [this, and_assoc]

@[simp] theorem dequeRun_nil_ops {α : Type} (l : List α) : dequeRun l [] = [] := by
  cases l <;> simp [dequeRun]

@[simp] theorem Tree.toks_node (r a b : Nat) (t : Option Str) (cs : List Tree) :
    (Tree.node r a b t cs).toks = .start r a :: (toksList cs ++ [.stop r b]) := by simp [Tree.toks]
@[simp] theorem toksList_nil : toksList [] = [] := by simp [toksList]
@[simp] theorem toksList_cons (t : Tree) (ts : List Tree) : toksList (t :: ts) = t.toks ++ toksList ts := by
  simp [toksList]

variable {q : List QTok}

theorem toks_of_layout {a b : Nat} {ts : List Tree} (h : Layout q a ts b) :
    SeqAt (createToken q) a (toksList ts) ∧ (toksList ts).length = sizeList ts := by
  induction h with
  | nil a => simp [SeqAt]
  | cons h1 h2 hk hr ihk ihr =>
    rename_i a e b r p0 p1 tag kids rest
    have hs := hk.size
    obtain ⟨ik, lk⟩ := ihk
    obtain ⟨ir, lr⟩ := ihr
    constructor
    · simp only [toksList_cons, Tree.toks_node, List.cons_append, SeqAt, SeqAt.append,
        List.length_nil, List.append_assoc]
      have e1 : a + 1 + (toksList kids).length = e := by omega
      rw [e1, Nat.add_zero]
      refine ⟨?_, ik, ?_, trivial, ir⟩
      · simp [createToken, h1, h2]
      · simp [createToken, h2]
    · simp [lk, lr]; omega

theorem toksRun_of_seq : ∀ (ops : List Bool) (a b : Nat) (L : List Tok),
    SeqAt (createToken q) a L → b = a + L.length → toksRun q a b ops = some (dequeRun L ops) := by
  intro ops
  induction ops with
  | nil => intro a b L _ _; simp [toksRun]
  | cons op ops ih =>
    intro a b L hL hb
    cases L with
    | nil =>
      have : a ≥ b := by simp at hb; omega
      simp [toksRun, this, ih a b [] hL hb, dequeRun]
    | cons x xs =>
      have hlt : ¬ a ≥ b := by simp at hb; omega
      cases op with
      | true =>
        have h2 := ih (a + 1) b xs hL.2 (by simp at hb; omega)
        have : b - (a + 1) = xs.length := by simp at hb; omega
        simp [toksRun, hlt, hL.1, h2, dequeRun, this]
      | false =>
        have hne : x :: xs ≠ [] := by simp
        have hdec := List.dropLast_concat_getLast hne
        rw [← hdec] at hL
        obtain ⟨hd, hl, _⟩ := SeqAt.append.1 hL
        have hlen : (x :: xs).dropLast.length = xs.length := by simp
        have hb1 : b - 1 = a + (x :: xs).dropLast.length := by simp at hb; rw [hlen]; omega
        have h2 := ih a (b - 1) _ hd hb1
        rw [← hb1] at hl
        have : b - 1 - a = xs.length := by omega
        simp only [toksRun, hlt, if_false, hl, h2, dequeRun, List.getLast?_eq_some_getLast hne, this]
        simp

end PestModel.Views
