#!/bin/bash
# queue a round-4 seed verification (serialised with flock, runs in the background)
for id in "$@"; do (flock /tmp/mut4/verify.lock /verif/tools/verify_seed4.sh $id > /dev/null 2>&1 &) ; done
