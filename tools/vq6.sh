#!/bin/bash
# queue a round-6 seed verification (serialised with flock, runs in the background)
for id in "$@"; do (flock /tmp/mut6/verify.lock /verif/tools/verify_seed6.sh $id > /dev/null 2>&1 &) ; done
