import PestModel.Lemmas.RefHoare
import PestModel.Model.ReaderFull
/-!
Generic (any grammar): **every pair of a successful parse spans a slice of the input** — an instance of the Hoare rule of
`RefHoare` with the same postcondition for every rule.
-/
namespace PestModel.Ref
open PestModel.G
open PestModel.LineCol (Str bLen slice?)
open PestModel.Views (Tree)
open PestModel.PS (Atomicity CharSet)

mutual
  /-- the span of the pair and of every pair below it is a slice of `text`. -/
  def treeSliced (text : Str) : Tree → Prop
    | .node _ a b _ cs => (slice? text a b).isSome = true ∧ slicedList text cs
  def slicedList (text : Str) : List Tree → Prop
    | [] => True
    | t :: ts => treeSliced text t ∧ slicedList text ts
end

theorem slicedList_append (text : Str) : ∀ (a b : List Tree), slicedList text (a ++ b) ↔ slicedList text a ∧ slicedList text b
  | [], b => by simp [slicedList]
  | t :: a, b => by simp [slicedList, slicedList_append text a b, and_assoc]

def slicedPost (text : Str) : Post := fun _ _ _ _ _ F => slicedList text F

theorem starW_sliced {text : Str} {R : Nat → Str → List Tree → Prop} (hR : ∀ a w f, R a w f → slicedList text f)
    {a : Nat} {w : Str} {F : List Tree} (h : StarW R a w F) : slicedList text F := by
  induction h with
  | nil => trivial
  | cons hr _ ih => exact (slicedList_append text _ _).2 ⟨hR _ _ _ hr, ih⟩

theorem skW_sliced {text : Str} {m : Atomicity} {la : Bool} {a : Nat} {w : Str} {F : List Tree}
    (h : SkW (slicedPost text) m la a w F) : slicedList text F := by
  unfold SkW at h
  split at h
  · exact starW_sliced (fun _ _ _ hr => by rcases hr with hr | hr <;> exact hr) h
  · rw [h.2]; trivial

theorem slicedList_setLastTag (text : Str) (f : List Tree) (t : Str) (h : slicedList text f) : slicedList text (setLastTag f t) := by
  unfold setLastTag
  split
  · rename_i r a b tg ks hl
    have hne : f ≠ [] := by intro e; rw [e] at hl; simp at hl
    have hf : f = f.dropLast ++ [.node r a b tg ks] := by
      have h1 := List.dropLast_concat_getLast hne
      have h2 : f.getLast hne = .node r a b tg ks := by
        have := List.getLast?_eq_some_getLast hne
        rw [this] at hl
        exact Option.some.inj hl
      rw [h2] at h1
      exact h1.symm
    rw [hf] at h
    have := (slicedList_append text _ _).1 h
    refine (slicedList_append text _ _).2 ⟨this.1, ?_⟩
    simpa [slicedList, treeSliced] using this.2
  · exact h

theorem okW_sliced {text : Str} {m : Atomicity} {la : Bool} : ∀ (e : Expr) (a : Nat) (w : Str) (F : List Tree),
    OkW (slicedPost text) m la e a w F → slicedList text F
  | .str _, _, _, _, h => by simp only [OkW] at h; rw [h.2]; trivial
  | .insens _, _, _, _, h => by simp only [OkW] at h; rw [h.2]; trivial
  | .range _ _, _, _, _, h => by simp only [OkW] at h; obtain ⟨_, _, _, _, h⟩ := h; rw [h]; trivial
  | .ident _, _, _, _, h => by simp only [OkW] at h; exact h
  | .peekSlice _ _, _, _, _, h => by simp only [OkW] at h; rw [h]; trivial
  | .posPred _, _, _, _, h => by simp only [OkW] at h; rw [h.2]; trivial
  | .negPred _, _, _, _, h => by simp only [OkW] at h; rw [h.2]; trivial
  | .skip _, _, _, _, h => by simp only [OkW] at h; rw [h]; trivial
  | .pushLiteral _, _, _, _, h => by simp only [OkW] at h; rw [h.2]; trivial
  | .seq x y, a, w, F, h => by
    simp only [OkW] at h
    obtain ⟨w1, f1, w2, f2, w3, f3, h1, h2, h3, _, rfl⟩ := h
    exact (slicedList_append text _ _).2 ⟨(slicedList_append text _ _).2 ⟨okW_sliced x _ _ _ h1, skW_sliced h2⟩, okW_sliced y _ _ _ h3⟩
  | .choice x y, a, w, F, h => by
    simp only [OkW] at h
    rcases h with h | h
    · exact okW_sliced x _ _ _ h
    · exact okW_sliced y _ _ _ h
  | .opt e, a, w, F, h => by
    simp only [OkW] at h
    rcases h with h | h
    · exact okW_sliced e _ _ _ h
    · rw [h.2]; trivial
  | .push e, a, w, F, h => by simp only [OkW] at h; exact okW_sliced e _ _ _ h
  | .nodeTag e t, a, w, F, h => by
    simp only [OkW] at h
    obtain ⟨f, hf, hF⟩ := h
    have := okW_sliced e _ _ _ hf
    rcases hF with rfl | rfl
    · exact this
    · exact slicedList_setLastTag text f t this
  | .rep e, a, w, F, h => by
    simp only [OkW] at h
    exact starW_sliced (fun _ _ _ hr => by rcases hr with hr | hr; exact okW_sliced e _ _ _ hr; exact skW_sliced hr) h
  | .repOnce e, a, w, F, h => by
    simp only [OkW] at h
    exact starW_sliced (fun _ _ _ hr => by rcases hr with hr | hr; exact okW_sliced e _ _ _ hr; exact skW_sliced hr) h
  | .repExact e _, a, w, F, h => by
    simp only [OkW] at h
    exact starW_sliced (fun _ _ _ hr => by rcases hr with hr | hr; exact okW_sliced e _ _ _ hr; exact skW_sliced hr) h
  | .repMin e _, a, w, F, h => by
    simp only [OkW] at h
    exact starW_sliced (fun _ _ _ hr => by rcases hr with hr | hr; exact okW_sliced e _ _ _ hr; exact skW_sliced hr) h
  | .repMax e _, a, w, F, h => by
    simp only [OkW] at h
    exact starW_sliced (fun _ _ _ hr => by rcases hr with hr | hr; exact okW_sliced e _ _ _ hr; exact skW_sliced hr) h
  | .repMinMax e _ _, a, w, F, h => by
    simp only [OkW] at h
    exact starW_sliced (fun _ _ _ hr => by rcases hr with hr | hr; exact okW_sliced e _ _ _ hr; exact skW_sliced hr) h

theorem slicedPostOK (c : Ctx) : PostOK c (slicedPost c.input) where
  rule := by
    intro name id r _ m la a w f hat hok
    have hf := okW_sliced r.expr a w f hok
    show slicedList c.input _
    split
    · exact ⟨⟨by rw [hat.slice]; rfl, hf⟩, trivial⟩
    · exact hf
  builtin := by
    intro name _ m la a w F hat hb
    show slicedList c.input F
    unfold BuiltinW at hb
    split at hb
    · obtain ⟨rfl, _, rfl⟩ := hb
      split
      · refine ⟨⟨?_, trivial⟩, trivial⟩
        have := hat.slice
        simpa using congrArg Option.isSome this
      · trivial
    · split at hb
      · rw [hb.2.2]; trivial
      · split at hb
        · rw [hb.2]; trivial
        · rw [hb]; trivial

/-- **every pair of a successful parse (of any grammar, from any rule) spans a slice of the input.** -/
theorem meaning_sliced (rules : List Rule) (extras : Bool) (uni : String → Option CharSet) (n : Nat) (rule : String)
    (input : Str) (s' : St) (F : List Tree) (h : meaning rules extras uni n rule input = .ok s' F) : slicedList input F := by
  obtain ⟨_, _, _, hp⟩ := sound_meaning (slicedPostOK { rules, input, extras, uni }) n rule s' F h
  exact hp

end PestModel.Ref
