import PestModel.Model.PStateSpec
import PestModel.Lemmas.PStateLimit
/-!
# C15 — detailed error tracking is observationally transparent

Property theorems only; helper lemmas in `PestModel/Lemmas/PStateLimit*.lean` / `PStateDetail*.lean`.
-/
namespace PestModel.C15
open PestModel.PS PestModel.LineCol

/-- What the detailed-attempts bookkeeping guarantees across any completed call: `max_position`
never decreases, and while it has not grown the number of recorded call stacks has not shrunk
(this is what keeps `splice(start_index..)` in range). -/
theorem attempts_monotone (cfg : Cfg) (fuel : Nat) (p : Prog) (s s' : PState)
    (h : (run cfg fuel p s).state? = some s') :
    s.pa.maxPos ≤ s'.pa.maxPos ∧
    (s'.pa.maxPos = s.pa.maxPos → s.pa.callStacks.length ≤ s'.pa.callStacks.length) :=
  run_paMono cfg fuel p s s' h

/-- **Transparency, unconditionally**: erasing the attempt information from the outcome of a run
gives exactly the outcome of the run with detail off — same success/failure, position, tokens,
stack, error position and expected/unexpected rules; and the detailed run panics or runs out of
fuel exactly when the plain run does.  (Stronger than both `detail_erasure` and `detail_no_panic`.) -/
theorem detail_erasure_total (cfg : Cfg) (fuel : Nat) (p : Prog) (s : PState) :
    (run cfg fuel p s).mapState PState.eraseDetail = run cfg fuel p s.eraseDetail :=
  run_eraseDetail cfg fuel p s

/-- **Transparency.** Unless the detailed run panics (excluded by `detail_no_panic`), erasing the
attempt information from its outcome gives exactly the outcome of the run with detail off:
same success/failure, position, tokens, stack, error position and expected/unexpected rules.
(The hypothesis turns out not to be needed: `detail_erasure_total`.) -/
theorem detail_erasure (cfg : Cfg) (fuel : Nat) (p : Prog) (s : PState)
    (hnp : run cfg fuel p s ≠ .panic) :
    (run cfg fuel p s).mapState PState.eraseDetail = run cfg fuel p s.eraseDetail := by
  have _ := hnp
  exact run_eraseDetail cfg fuel p s

/-- **Detailed tracking never makes a parse panic**: on well-formed states a run with detail on
panics only if the same run with detail off panics.  (Well-formedness is not needed.) -/
theorem detail_no_panic (cfg : Cfg) (fuel : Nat) (p : Prog) (s : PState) (hwf : s.WF)
    (h : run cfg fuel p s = .panic) : run cfg fuel p s.eraseDetail = .panic := by
  have _ := hwf
  rw [← run_eraseDetail, h]; rfl

/-- the `splice(start_index..)` of `try_add_new_stack_rule`, the only panic site specific to detailed
runs, is in range whenever it is reached from a completed body run. -/
theorem splice_in_range (cfg : Cfg) (fuel : Nat) (p : Prog) (s1 ns : PState) (r : Nat)
    (h : (run cfg fuel p s1).state? = some ns) :
    ∃ ns', tryAddRuleToStack ns r s1.pa.callStacks.length s1.pa.maxPos = some ns' :=
  tryAddRuleToStack_isSome (run_paMono cfg fuel p s1 ns h)

/-- `max_position` always is a UTF-8 boundary inside the input (so the help message of
`parse_attempts_error`, which is rendered by `Error::new_from_pos` at that position, can be
rendered: C10 `render_total_pos`). -/
theorem maxpos_boundary (cfg : Cfg) (fuel : Nat) (p : Prog) (s s' : PState) (hwf : s.WF)
    (hb : isBoundary s.input s.pa.maxPos = true)
    (h : (run cfg fuel p s).state? = some s') : isBoundary s'.input s'.pa.maxPos = true := by
  rw [(run_rel cfg fuel p s s' h).input]
  exact (run_tr cfg fuel p s s' h).maxPosBnd hwf.1 hb

end PestModel.C15
