import PestModel.Lemmas.RefConcat
/-! C05 helper lemmas, part 8: successful evaluation keeps the position on a character boundary. -/
namespace PestModel.Ref
open PestModel.G
open PestModel.LineCol (Str bLen cLen splitAt?)
open PestModel.Views (Tree)
open PestModel.PS (Atomicity CharSet restAt asciiLower eqIgnoreAsciiCase normalizeIndex)

structure Pres (c : Ctx) (X : Fam) : Prop where
  d : ∀ m la e s s' f, Valid c s → X.d m la e s = .ok s' f → Valid c s'
  l : ∀ m la e s acc s' f, Valid c s → X.l m la e s acc = .ok s' f → Valid c s'
  k : ∀ m la s s' f, Valid c s → X.k m la s = .ok s' f → Valid c s'
  st : ∀ la nm s acc s' f, Valid c s → X.st la nm s acc = .ok s' f → Valid c s'
  cl : ∀ la s acc s' f, Valid c s → X.cl la s acc = .ok s' f → Valid c s'
  ca : ∀ m la nm s s' f, Valid c s → X.ca m la nm s = .ok s' f → Valid c s'

theorem valid_of_pos {c : Ctx} {s s' : St} (h : Valid c s) (hp : s'.pos = s.pos) : Valid c s' := by
  unfold Valid at *; rw [hp]; exact h

set_option hygiene false in
local macro "pc " t:term : tactic => `(tactic| (cases hx : $t <;> simp [hx] at h))

theorem denoteF_pres {c : Ctx} {X : Fam} (hX : Pres c X) m la e s s' f (hs : Valid c s)
    (h : denoteF c X m la e s = .ok s' f) : Valid c s' := by
  cases e <;> simp only [denoteF] at h
  case str str => exact lit_valid h
  case insens str => exact insensM_valid (c := c) (s := s) (str := str) h
  case range a b => exact oneChar_valid h
  case ident n => exact hX.ca _ _ _ _ _ _ hs h
  case peekSlice a b =>
    split at h
    · split at h
      · simp at h; rw [← h.1]; exact hs
      · split at h
        · rename_i p hp
          simp at h
          have := matchStrs_valid hs hp
          rw [← h.1]; exact this
        · simp at h
    · simp at h
  case posPred e =>
    pc X.d m true e s
    rw [← h.1]; exact hs
  case negPred e =>
    pc X.d m true e s
    rw [← h.1]; exact hs
  case seq a b =>
    pc X.d m la a s
    rename_i s1 f1
    have v1 := hX.d _ _ _ _ _ _ hs hx
    clear hx
    pc X.k m la s1
    rename_i s2 f2
    have v2 := hX.k _ _ _ _ _ v1 hx
    clear hx
    pc X.d m la b s2
    rw [← h.1]
    exact hX.d _ _ _ _ _ _ v2 hx
  case choice a b =>
    pc X.d m la a s
    · rw [← h.1]; exact hX.d _ _ _ _ _ _ hs hx
    · exact hX.d _ _ _ _ _ _ hs h
  case opt e =>
    pc X.d m la e s
    · rw [← h.1]; exact hX.d _ _ _ _ _ _ hs hx
    · rw [← h.1]; exact hs
  case rep e =>
    pc X.d m la e s
    · exact hX.l _ _ _ _ _ _ _ (hX.d _ _ _ _ _ _ hs hx) h
    · rw [← h.1]; exact hs
  case repOnce e =>
    split at h
    · pc X.d m la e s
      exact hX.l _ _ _ _ _ _ _ (hX.d _ _ _ _ _ _ hs hx) h
    · exact hX.d _ _ _ _ _ _ hs h
  case skip strs =>
    split at h
    · rename_i rest hr
      simp at h
      rw [← h.1]
      exact search_valid strs hr
    · simp at h
  case push e =>
    pc X.d m la e s
    rename_i s1 f1
    split at h
    · simp at h
      exact valid_of_pos (hX.d _ _ _ _ _ _ hs hx) (by rw [← h.1])
    · simp at h
  case pushLiteral str =>
    simp at h
    exact valid_of_pos hs (by rw [← h.1])
  case nodeTag e t =>
    pc X.d m la e s
    rw [← h.1]; exact hX.d _ _ _ _ _ _ hs hx
  all_goals (split at h <;> first | exact hX.d _ _ _ _ _ _ hs h | simp at h)

theorem repLoopF_pres {c : Ctx} {X : Fam} (hX : Pres c X) m la e s acc s' f (hs : Valid c s)
    (h : repLoopF X m la e s acc = .ok s' f) : Valid c s' := by
  simp only [repLoopF] at h
  pc X.k m la s
  · rename_i s1 f1
    have v1 := hX.k _ _ _ _ _ hs hx
    clear hx
    pc X.d m la e s1
    · exact hX.l _ _ _ _ _ _ _ (hX.d _ _ _ _ _ _ v1 hx) h
    · rw [← h.1]; exact hs
  · rw [← h.1]; exact hs

theorem skipWsF_pres {c : Ctx} {X : Fam} (hX : Pres c X) m la s s' f (hs : Valid c s)
    (h : skipWsF c X m la s = .ok s' f) : Valid c s' := by
  simp only [skipWsF] at h
  split at h
  · simp at h; rw [← h.1]; exact hs
  · split at h
    · simp at h; rw [← h.1]; exact hs
    · exact hX.st _ _ _ _ _ _ hs h
    · exact hX.st _ _ _ _ _ _ hs h
    · pc X.st la "WHITESPACE" s []
      exact hX.cl _ _ _ _ _ (hX.st _ _ _ _ _ _ hs hx) h

theorem starF_pres {c : Ctx} {X : Fam} (hX : Pres c X) la nm s acc s' f (hs : Valid c s)
    (h : starF X la nm s acc = .ok s' f) : Valid c s' := by
  simp only [starF] at h
  pc X.ca .nonAtomic la nm s
  · exact hX.st _ _ _ _ _ _ (hX.ca _ _ _ _ _ _ hs hx) h
  · rw [← h.1]; exact hs

theorem commentLoopF_pres {c : Ctx} {X : Fam} (hX : Pres c X) la s acc s' f (hs : Valid c s)
    (h : commentLoopF X la s acc = .ok s' f) : Valid c s' := by
  simp only [commentLoopF] at h
  pc X.ca .nonAtomic la "COMMENT" s
  · rename_i s1 f1
    have v1 := hX.ca _ _ _ _ _ _ hs hx
    clear hx
    pc X.st la "WHITESPACE" s1 []
    exact hX.cl _ _ _ _ _ (hX.st _ _ _ _ _ _ v1 hx) h
  · rw [← h.1]; exact hs

theorem builtin_pres {c : Ctx} m la nm s s' f (hs : Valid c s)
    (h : builtin c m la nm s = .ok s' f) : Valid c s' := by
  unfold builtin at h
  simp only [] at h
  split at h
  all_goals try (exact oneChar_valid h)
  · split at h <;> simp at h
    rw [← h.1]; exact hs
  · split at h <;> simp at h
    rw [← h.1]; exact hs
  · split at h
    · simp at h
    · exact lit_valid h
  · split at h
    · simp at h
    · rename_i top rest _
      pc lit c s top
      exact valid_of_pos (lit_valid hx) (by rw [← h.1])
  · split at h
    · rename_i p hp
      simp at h
      rw [← h.1]; exact matchStrs_valid hs hp
    · simp at h
  · split at h
    · rename_i p hp
      simp at h
      rw [← h.1]; exact matchStrs_valid hs hp
    · simp at h
  · split at h
    · simp at h
    · simp at h
      exact valid_of_pos hs (by rw [← h.1])
  · pc lit c s ['\n']
    · rw [← h.1]; exact lit_valid hx
    · clear hx
      pc lit c s ['\r', '\n']
      · rw [← h.1]; exact lit_valid hx
      · exact lit_valid h
  · split at h
    · exact oneChar_valid h
    · simp at h

theorem callF_pres {c : Ctx} {X : Fam} (hX : Pres c X) m la nm s s' f (hs : Valid c s)
    (h : callF c X m la nm s = .ok s' f) : Valid c s' := by
  simp only [callF] at h
  split at h
  · rename_i id r _
    pc X.d (bodyMode r.name r.ty m) la r.expr s
    have := hX.d _ _ _ _ _ _ hs hx
    split at h <;> simp at h <;> (rw [← h.1]; exact this)
  · exact builtin_pres m la nm s s' f hs h

theorem step_pres {c : Ctx} {X : Fam} (hX : Pres c X) : Pres c (step c X) :=
  ⟨denoteF_pres hX, repLoopF_pres hX, skipWsF_pres hX, starF_pres hX, commentLoopF_pres hX, callF_pres hX⟩

theorem lev_pres (c : Ctx) (n : Nat) : Pres c (lev c n) := by
  induction n with
  | zero =>
    constructor <;> intros
    · rename_i h; rw [lev_zero_d] at h; cases h
    · rename_i h; rw [lev_zero_l] at h; cases h
    · rename_i h; rw [lev_zero_k] at h; cases h
    · rename_i h; rw [lev_zero_st] at h; cases h
    · rename_i h; rw [lev_zero_cl] at h; cases h
    · rename_i h; rw [lev_zero_ca] at h; cases h
  | succ n ih => rw [lev_succ]; exact step_pres ih

theorem inv_valid (c : Ctx) : Inv (Valid c) c := by
  constructor
  · intro m la e s s' f hs h
    obtain ⟨n, hn⟩ := exists_denote c m la e s
    exact (lev_pres c n).d m la e s s' f hs (hn.trans h)
  · intro m la s s' f hs h
    obtain ⟨N, hN⟩ := (lev_conv c).k m la s
    exact (lev_pres c N).k m la s s' f hs ((hN N (Nat.le_refl _)).trans h)

end PestModel.Ref
