/-
L9 — operator-precedence parsers: `pest/src/pratt_parser.rs` (`PrattParser::op`,
`ConstPrattParser::new_const/get`, `PrattParserMap::expr/nud/led/lbp`) and
`pest/src/prec_climber.rs` (`PrecClimber::new/get/climb/climb_rec`), plus the classical
shunting-yard algorithm as the specification.

Tokens are rule numbers (a token whose rule is not in the table is a primary). The user
callbacks `map_primary/prefix/postfix/infix` are taken to build the tree.
Results are three-valued: `ok`, `panic` (the Rust code panics: `expect`, `unwrap`, explicit
`panic!`, `prec - 1` underflow) and `fuel` (the model ran out of recursion fuel — excluded by the
theorems, never identified with `panic`).
-/
namespace PestModel.Pratt

inductive Assoc where
  | left | right
  deriving Repr, DecidableEq

inductive Affix where
  | prefix | postfix | infix (a : Assoc)
  deriving Repr, DecidableEq

inductive Tree where
  | prim (r : Nat)
  | pre (r : Nat) (t : Tree)
  | post (t : Tree) (r : Nat)
  | inf (l : Tree) (r : Nat) (rt : Tree)
  deriving Repr, DecidableEq

inductive Res (α : Type) where
  | ok (a : α)
  | panic
  | fuel
  deriving Repr, DecidableEq

/-- `get`: rule ↦ (affix, precedence). -/
abbrev Table := Nat → Option (Affix × Nat)

/-! ### Table construction -/

/-- Last binding of a rule wins (`BTreeMap::insert` overwrites; `ConstPrattParser::get` scans
from the end). -/
def lookupLast (entries : List (Nat × Affix × Nat)) (r : Nat) : Option (Affix × Nat) :=
  match entries.reverse.find? (fun e => e.1 = r) with
  | some (_, a, p) => some (a, p)
  | none => none

/-- `PrattParser::new().op(l₁).op(l₂)…`: level `i` (0-based) gets `10 + 10·(i+1)`. -/
def prattEntries : List (List (Nat × Affix)) → Nat → List (Nat × Affix × Nat)
  | [], _ => []
  | lvl :: rest, prec =>
    let prec' := prec + 10
    lvl.map (fun (r, a) => (r, a, prec')) ++ prattEntries rest prec'

def prattTable (levels : List (List (Nat × Affix))) : Table := lookupLast (prattEntries levels 10)

/-- `ConstPrattParser::new_const`: entries `(rule, affix, new_level)`; `prec` starts at 0 and
steps by 10 at each `true`. -/
def constEntries : List (Nat × Affix × Bool) → Nat → List (Nat × Affix × Nat)
  | [], _ => []
  | (r, a, nl) :: rest, prec =>
    let prec' := if nl then prec + 10 else prec
    (r, a, prec') :: constEntries rest prec'

def constTable (ops : List (Nat × Affix × Bool)) : Table := lookupLast (constEntries ops 0)

/-- The array `pratt_precedence!` builds from levels: the first operator of each level is `true`. -/
def flattenLevels : List (List (Nat × Affix)) → List (Nat × Affix × Bool)
  | [] => []
  | lvl :: rest =>
    (match lvl with
     | [] => []
     | (r, a) :: ops => (r, a, true) :: ops.map (fun (r, a) => (r, a, false))) ++ flattenLevels rest

/-! ### The Pratt parser (`expr`/`nud`/`led`/`lbp`) -/

/-- `lbp`: peek. -/
def lbp (t : Table) : List Nat → Res Nat
  | [] => .ok 0
  | r :: _ =>
    match t r with
    | some (_, p) => .ok p
    | none => .panic                     -- "Expected operator, found …"

mutual
  /-- `expr(pairs, rbp)`. -/
  def expr (t : Table) : Nat → List Nat → Nat → Res (Tree × List Nat)
    | 0, _, _ => .fuel
    | f + 1, toks, rbp =>
      match nud t f toks with
      | .ok (lhs, rest) => loop t f lhs rest rbp
      | .panic => .panic
      | .fuel => .fuel
  /-- `while rbp < self.lbp(pairs) { lhs = self.led(pairs, lhs) }`. -/
  def loop (t : Table) : Nat → Tree → List Nat → Nat → Res (Tree × List Nat)
    | 0, _, _, _ => .fuel
    | f + 1, lhs, toks, rbp =>
      match lbp t toks with
      | .ok p =>
        if rbp < p then
          match led t f lhs toks with
          | .ok (lhs', rest) => loop t f lhs' rest rbp
          | .panic => .panic
          | .fuel => .fuel
        else .ok (lhs, toks)
      | .panic => .panic
      | .fuel => .fuel
  /-- `nud`. -/
  def nud (t : Table) : Nat → List Nat → Res (Tree × List Nat)
    | 0, _ => .fuel
    | _ + 1, [] => .panic               -- "Pratt parsing expects non-empty Pairs"
    | f + 1, r :: rest =>
      match t r with
      | some (.prefix, p) =>
        if p = 0 then .panic else       -- `prec - 1`
        match expr t f rest (p - 1) with
        | .ok (rhs, rest') => .ok (.pre r rhs, rest')
        | .panic => .panic
        | .fuel => .fuel
      | none => .ok (.prim r, rest)
      | some _ => .panic                -- "Expected prefix or primary expression"
  /-- `led`. -/
  def led (t : Table) : Nat → Tree → List Nat → Res (Tree × List Nat)
    | 0, _, _ => .fuel
    | _ + 1, _, [] => .panic            -- `pairs.next().unwrap()`
    | f + 1, lhs, r :: rest =>
      match t r with
      | some (.infix a, p) =>
        let rbp? : Option Nat := match a with
          | .left => some p
          | .right => if p = 0 then none else some (p - 1)
        match rbp? with
        | none => .panic
        | some rbp =>
          match expr t f rest rbp with
          | .ok (rhs, rest') => .ok (.inf lhs r rhs, rest')
          | .panic => .panic
          | .fuel => .fuel
      | some (.postfix, _) => .ok (.post lhs r, rest)
      | _ => .panic                     -- "Expected postfix or infix expression"
end

/-- `PrattParserMap::parse`: `self.expr(&mut pairs.peekable(), 0)`; fuel is ample (4 calls/token). -/
def parse (t : Table) (toks : List Nat) : Res (Tree × List Nat) :=
  expr t (4 * toks.length + 4) toks 0

/-! ### `PrecClimber` -/

/-- `PrecClimber::new`: level `i` (0-based) gets precedence `i + 1`; first match wins in `get`. -/
def climberEntries : List (List (Nat × Assoc)) → Nat → List (Nat × Nat × Assoc)
  | [], _ => []
  | lvl :: rest, prec => lvl.map (fun (r, a) => (r, prec, a)) ++ climberEntries rest (prec + 1)

abbrev CTable := Nat → Option (Nat × Assoc)

def climberTable (levels : List (List (Nat × Assoc))) : CTable := fun r =>
  match (climberEntries levels 1).find? (fun e => e.1 = r) with
  | some (_, p, a) => some (p, a)
  | none => none

mutual
  /-- outer `while` of `climb_rec`. -/
  def climbRec (t : CTable) : Nat → Tree → Nat → List Nat → Res (Tree × List Nat)
    | 0, _, _, _ => .fuel
    | _ + 1, lhs, _, [] => .ok (lhs, [])
    | f + 1, lhs, minPrec, r :: rest =>
      match t r with
      | some (prec, _) =>
        if prec ≥ minPrec then
          match rest with
          | [] => .panic               -- "infix operator must be followed by a primary expression"
          | q :: rest' =>
            match climbInner t f (.prim q) prec rest' with
            | .ok (rhs, rest'') => climbRec t f (.inf lhs r rhs) minPrec rest''
            | .panic => .panic
            | .fuel => .fuel
        else .ok (lhs, r :: rest)
      | none => .ok (lhs, r :: rest)
  /-- inner `while`: extend `rhs` while the next operator binds tighter (or equal and right-assoc). -/
  def climbInner (t : CTable) : Nat → Tree → Nat → List Nat → Res (Tree × List Nat)
    | 0, _, _, _ => .fuel
    | _ + 1, rhs, _, [] => .ok (rhs, [])
    | f + 1, rhs, prec, r :: rest =>
      match t r with
      | some (newPrec, assoc) =>
        if newPrec > prec ∨ (assoc = .right ∧ newPrec = prec) then
          match climbRec t f rhs newPrec (r :: rest) with
          | .ok (rhs', rest') => climbInner t f rhs' prec rest'
          | .panic => .panic
          | .fuel => .fuel
        else .ok (rhs, r :: rest)
      | none => .ok (rhs, r :: rest)
end

/-- `PrecClimber::climb`. -/
def climb (t : CTable) : List Nat → Res (Tree × List Nat)
  | [] => .panic                        -- "precedence climbing requires a non-empty Pairs"
  | q :: rest => climbRec t (4 * rest.length + 4) (.prim q) 0 rest

/-! ### Specification: the classical operator-precedence (shunting-yard) algorithm -/

/-- A pending operator on the operator stack. -/
inductive Pending where
  | pre (r p : Nat)
  | inf (r p : Nat) (a : Assoc)
  deriving Repr, DecidableEq

/-- Right binding power: `p` for a left-associative infix operator, just below `p` for a
right-associative infix operator and for a prefix operator. -/
def Pending.rbp : Pending → Nat
  | .pre _ p => p - 1
  | .inf _ p .left => p
  | .inf _ p .right => p - 1

/-- Apply a pending operator to the operand stack. -/
def applyPending : Pending → List Tree → Option (List Tree)
  | .pre r _, x :: out => some (.pre r x :: out)
  | .inf r _ _, y :: x :: out => some (.inf x r y :: out)
  | _, _ => none

/-- Reduce while the operator on top binds its right side at least as tightly as the incoming
operator binds its left side (`lbp`). -/
def reduceWhile (lbp : Nat) : List Pending → List Tree → Option (List Pending × List Tree)
  | [], out => some ([], out)
  | o :: ops, out =>
    if o.rbp ≥ lbp then
      match applyPending o out with
      | some out' => reduceWhile lbp ops out'
      | none => none
    else some (o :: ops, out)

/-- The shunting-yard machine. `true` = an operand is expected. `none` = ill-formed input. -/
def sy (t : Table) : Bool → List Nat → List Pending → List Tree → Option Tree
  | true, [], _, _ => none
  | true, r :: rest, ops, out =>
    match t r with
    | none => sy t false rest ops (.prim r :: out)
    | some (.prefix, p) => sy t true rest (.pre r p :: ops) out
    | some _ => none
  | false, [], ops, out =>
    match reduceWhile 0 ops out with
    | some ([], [x]) => some x
    | _ => none
  | false, r :: rest, ops, out =>
    match t r with
    | some (.postfix, p) =>
      match reduceWhile p ops out with
      | some (ops', x :: out') => sy t false rest ops' (.post x r :: out')
      | _ => none
    | some (.infix a, p) =>
      match reduceWhile p ops out with
      | some (ops', out') => sy t true rest (.inf r p a :: ops') out'
      | none => none
    | _ => none

def shuntingYard (t : Table) (toks : List Nat) : Option Tree := sy t true toks [] []

/-- Well-formed sequences: `prefix* primary postfix* (infix prefix* primary postfix*)*`. -/
def wf (t : Table) : Bool → List Nat → Bool
  | true, [] => false
  | true, r :: rest =>
    match t r with
    | none => wf t false rest
    | some (.prefix, _) => wf t true rest
    | some _ => false
  | false, [] => true
  | false, r :: rest =>
    match t r with
    | some (.postfix, _) => wf t false rest
    | some (.infix _, _) => wf t true rest
    | _ => false

def WellFormed (t : Table) (toks : List Nat) : Prop := wf t true toks = true

/-- In-order yield of a tree: the token sequence it was built from. -/
def Tree.yield : Tree → List Nat
  | .prim r => [r]
  | .pre r t => r :: t.yield
  | .post t r => t.yield ++ [r]
  | .inf l r rt => l.yield ++ r :: rt.yield

end PestModel.Pratt
