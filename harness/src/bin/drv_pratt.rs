//! C13: PrattParser / ConstPrattParser / PrecClimber on PairsBuilder token sequences vs
//! `pestmodel pratt`, and vs a shunting-yard oracle evaluated here.
#![allow(deprecated)]
use pest::iterators::{Pair, Pairs, PairsBuilder};
use pest::pratt_parser::{Assoc, ConstPrattParser, Op, PrattParser};
use pest::prec_climber::{Assoc as CAssoc, Operator, PrecClimber};
use std::collections::BTreeMap;
use verif_harness::*;

#[derive(Clone, Copy, Debug, Eq, Hash, Ord, PartialEq, PartialOrd)]
struct R(u8);

#[derive(Clone, Copy, PartialEq, Debug)]
enum Aff { Pre, Post, L, Rt }

#[derive(Clone, Debug, PartialEq)]
enum Tree { Prim(u8), Pre(u8, Box<Tree>), Post(Box<Tree>, u8), Inf(Box<Tree>, u8, Box<Tree>) }
fn show(t: &Tree) -> String {
    match t { Tree::Prim(r) => r.to_string(), Tree::Pre(r, t) => format!("(pre {} {})", r, show(t)), Tree::Post(t, r) => format!("(post {} {})", show(t), r), Tree::Inf(l, r, rt) => format!("(inf {} {} {})", show(l), r, show(rt)) }
}
fn yield_(t: &Tree, out: &mut Vec<u8>) {
    match t { Tree::Prim(r) => out.push(*r), Tree::Pre(r, t) => { out.push(*r); yield_(t, out) } Tree::Post(t, r) => { yield_(t, out); out.push(*r) } Tree::Inf(l, r, rt) => { yield_(l, out); out.push(*r); yield_(rt, out) } }
}

type Levels = Vec<Vec<(u8, Aff)>>;
fn parse_levels(w: &str) -> Option<Levels> {
    if w == "-" { return Some(vec![]); }
    w.split(';').map(|lvl| lvl.split(',').map(|o| {
        let (n, a) = o.split_at(o.len().checked_sub(1)?);
        Some((n.parse().ok()?, match a { "p" => Aff::Pre, "o" => Aff::Post, "l" => Aff::L, "r" => Aff::Rt, _ => return None }))
    }).collect()).collect()
}
fn parse_toks(w: &str) -> Option<Vec<u8>> { if w == "-" { Some(vec![]) } else { w.split(',').map(|x| x.parse().ok()).collect() } }
fn show_levels(l: &Levels) -> String {
    if l.is_empty() { return "-".into(); }
    l.iter().map(|lvl| lvl.iter().map(|(r, a)| format!("{}{}", r, match a { Aff::Pre => "p", Aff::Post => "o", Aff::L => "l", Aff::Rt => "r" })).collect::<Vec<_>>().join(",")).collect::<Vec<_>>().join(";")
}
fn show_toks(t: &[u8]) -> String { if t.is_empty() { "-".into() } else { t.iter().map(|x| x.to_string()).collect::<Vec<_>>().join(",") } }

fn mk_op(r: u8, a: Aff) -> Op<R> {
    match a { Aff::Pre => Op::prefix(R(r)), Aff::Post => Op::postfix(R(r)), Aff::L => Op::infix(R(r), Assoc::Left), Aff::Rt => Op::infix(R(r), Assoc::Right) }
}
fn pairs_of<'i>(input: &'i str, toks: &[u8]) -> Pairs<'i, R> {
    let mut b = PairsBuilder::new(input);
    for (i, t) in toks.iter().enumerate() { b = b.rule(R(*t), i, i + 1); }
    b.build()
}
fn rule_of(p: &Pair<'_, R>) -> u8 { p.as_rule().0 }

macro_rules! const_dispatch {
    ($n:expr, $flat:expr, $pairs:expr, [$($k:literal),*]) => {
        match $n {
            $( $k => {
                let flat = $flat;
                let arr: [(Op<R>, bool); $k] = core::array::from_fn(|i| (mk_op(flat[i].0, flat[i].1), flat[i].2));
                let p = ConstPrattParser::<R, $k>::new_const(arr);
                Some(p.map_primary(|p| Tree::Prim(rule_of(&p)))
                    .map_prefix(|o, r| Tree::Pre(rule_of(&o), Box::new(r)))
                    .map_postfix(|l, o| Tree::Post(Box::new(l), rule_of(&o)))
                    .map_infix(|l, o, r| Tree::Inf(Box::new(l), rule_of(&o), Box::new(r)))
                    .parse($pairs))
            } )*
            _ => None,
        }
    };
}

fn run_pratt(levels: &Levels, toks: &[u8]) -> Result<Tree, String> {
    let input: String = "x".repeat(toks.len());
    catch(|| {
        let mut p = PrattParser::new();
        for lvl in levels {
            let mut it = lvl.iter();
            let (r, a) = it.next().unwrap();
            let mut op = mk_op(*r, *a);
            for (r, a) in it { op = op | mk_op(*r, *a); }
            p = p.op(op);
        }
        p.map_primary(|p| Tree::Prim(rule_of(&p)))
            .map_prefix(|o, r| Tree::Pre(rule_of(&o), Box::new(r)))
            .map_postfix(|l, o| Tree::Post(Box::new(l), rule_of(&o)))
            .map_infix(|l, o, r| Tree::Inf(Box::new(l), rule_of(&o), Box::new(r)))
            .parse(pairs_of(&input, toks))
    })
}
fn run_const(levels: &Levels, toks: &[u8]) -> Option<Result<Tree, String>> {
    let flat: Vec<(u8, Aff, bool)> = levels.iter().flat_map(|lvl| lvl.iter().enumerate().map(|(i, (r, a))| (*r, *a, i == 0))).collect();
    let n = flat.len();
    if n == 0 || n > 12 { return None; }
    let input: String = "x".repeat(toks.len());
    let r = catch(|| const_dispatch!(n, &flat, pairs_of(&input, toks), [1, 2, 3, 4, 5, 6, 7, 8, 9, 10, 11, 12]));
    match r { Ok(Some(t)) => Some(Ok(t)), Ok(None) => None, Err(e) => Some(Err(e)) }
}
fn climber_ok(levels: &Levels) -> bool {
    let mut seen = std::collections::HashSet::new();
    levels.iter().all(|lvl| !lvl.is_empty() && lvl.iter().all(|(r, a)| matches!(a, Aff::L | Aff::Rt) && *a == lvl[0].1 && seen.insert(*r)))
}
fn run_climber(levels: &Levels, toks: &[u8]) -> Result<Tree, String> {
    let input: String = "x".repeat(toks.len());
    catch(|| {
        let ops: Vec<Operator<R>> = levels.iter().map(|lvl| {
            let mk = |(r, a): &(u8, Aff)| Operator::new(R(*r), if *a == Aff::L { CAssoc::Left } else { CAssoc::Right });
            let mut it = lvl.iter();
            let mut op = mk(it.next().unwrap());
            for x in it { op = op | mk(x); }
            op
        }).collect();
        let c = PrecClimber::new(ops);
        let t = c.climb(pairs_of(&input, toks), |p| Tree::Prim(rule_of(&p)), |l, o, r| Tree::Inf(Box::new(l), rule_of(&o), Box::new(r)));
        // the const constructor (feature const_prec_climber) borrows a static table whose entries may come in any order
        let flat: Vec<(R, u32, CAssoc)> = levels.iter().enumerate().flat_map(|(i, lvl)| lvl.iter().map(move |(r, a)| (R(*r), i as u32 + 1, if *a == Aff::L { CAssoc::Left } else { CAssoc::Right }))).collect();
        for variant in 0..3 {
            let mut v = flat.clone();
            match variant { 1 => v.reverse(), 2 => v.sort_by(|a, b| (b.0).0.cmp(&(a.0).0)), _ => {} }
            let st: &'static [(R, u32, CAssoc)] = Box::leak(v.into_boxed_slice());
            let t2 = PrecClimber::new_const(st).climb(pairs_of(&input, toks), |p| Tree::Prim(rule_of(&p)), |l, o, r| Tree::Inf(Box::new(l), rule_of(&o), Box::new(r)));
            if show(&t2) != show(&t) { panic!("PrecClimber::new_const (table order {}) builds {} where PrecClimber::new builds {}", variant, show(&t2), show(&t)); }
        }
        t
    })
}

// ---- oracle: classical shunting-yard with the property's binding powers
#[derive(Clone, Copy)]
enum Pend { Pre(u8, u32), Inf(u8, u32, bool /*left*/) }
fn table(levels: &Levels) -> BTreeMap<u8, (Aff, u32)> {
    let mut m = BTreeMap::new();
    for (i, lvl) in levels.iter().enumerate() { for (r, a) in lvl { m.insert(*r, (*a, 20 + 10 * i as u32)); } }
    m
}
fn shunting_yard(levels: &Levels, toks: &[u8]) -> Option<Tree> {
    let t = table(levels);
    let mut ops: Vec<Pend> = vec![]; let mut out: Vec<Tree> = vec![];
    fn rbp(p: &Pend) -> u32 { match p { Pend::Pre(_, p) => p - 1, Pend::Inf(_, p, true) => *p, Pend::Inf(_, p, false) => p - 1 } }
    fn reduce(lbp: u32, ops: &mut Vec<Pend>, out: &mut Vec<Tree>) -> Option<()> {
        while let Some(top) = ops.last() {
            if rbp(top) >= lbp {
                match ops.pop().unwrap() {
                    Pend::Pre(r, _) => { let x = out.pop()?; out.push(Tree::Pre(r, Box::new(x))); }
                    Pend::Inf(r, _, _) => { let y = out.pop()?; let x = out.pop()?; out.push(Tree::Inf(Box::new(x), r, Box::new(y))); }
                }
            } else { break; }
        }
        Some(())
    }
    let mut expect_operand = true;
    for &r in toks {
        if expect_operand {
            match t.get(&r) { None => { out.push(Tree::Prim(r)); expect_operand = false; } Some((Aff::Pre, p)) => ops.push(Pend::Pre(r, *p)), _ => return None }
        } else {
            match t.get(&r) {
                Some((Aff::Post, p)) => { reduce(*p, &mut ops, &mut out)?; let x = out.pop()?; out.push(Tree::Post(Box::new(x), r)); }
                Some((Aff::L, p)) => { reduce(*p, &mut ops, &mut out)?; ops.push(Pend::Inf(r, *p, true)); expect_operand = true; }
                Some((Aff::Rt, p)) => { reduce(*p, &mut ops, &mut out)?; ops.push(Pend::Inf(r, *p, false)); expect_operand = true; }
                _ => return None,
            }
        }
    }
    if expect_operand { return None; }
    reduce(0, &mut ops, &mut out)?;
    if ops.is_empty() && out.len() == 1 { out.pop() } else { None }
}

fn res(r: &Result<Tree, String>) -> String { match r { Ok(t) => show(t), Err(_) => "panic".into() } }

fn eval_line(l: &str) -> (String, String) {
    let w: Vec<&str> = l.split_whitespace().collect();
    if w.len() != 4 || w[0] != "T" { return ("bad-op".into(), "ok".into()); }
    let (levels, toks) = match (parse_levels(w[2]), parse_toks(w[3])) { (Some(a), Some(b)) => (a, b), _ => return ("bad-op".into(), "ok".into()) };
    if levels.iter().any(|l| l.is_empty()) { return ("bad-op".into(), "ok".into()); }
    let spec = shunting_yard(&levels, &toks);
    let check = |r: &Result<Tree, String>, what: &str| -> String {
        match (&spec, r) {
            (Some(s), Ok(t)) => { let mut y = vec![]; yield_(t, &mut y); if t != s { format!("FAIL {} tree {} but shunting-yard gives {}", what, show(t), show(s)) } else if y != toks { format!("FAIL {} yield differs from the token sequence", what) } else { "ok".into() } }
            (Some(s), Err(_)) => format!("FAIL {} panicked on a well-formed sequence; shunting-yard gives {}", what, show(s)),
            (None, _) => "ok".into(), // ill-formed sequences are outside the property
        }
    };
    match w[1] {
        "pratt" => { let r = run_pratt(&levels, &toks); (res(&r), check(&r, "PrattParser")) }
        "const" => match run_const(&levels, &toks) { Some(r) => (res(&r), check(&r, "ConstPrattParser")), None => ("bad-op".into(), "ok".into()) },
        "climber" => { if !climber_ok(&levels) { return ("bad-op".into(), "ok".into()); } let r = run_climber(&levels, &toks); (res(&r), check(&r, "PrecClimber")) }
        "sy" => (spec.as_ref().map(show).unwrap_or("ill-formed".into()), "ok".into()),
        _ => ("bad-op".into(), "ok".into()),
    }
}

fn gen_table(rng: &mut Rng, infix_only: bool, distinct: bool) -> Levels {
    let nl = rng.range(1, 6);
    let mut next_rule = 1u8;
    let mut levels = vec![];
    for _ in 0..nl {
        let n = if rng.chance(1, 4) { rng.range(4, 7) } else { rng.range(1, 3) };   // also long `|` chains on one level
        let single = if rng.chance(1, 2) { Aff::L } else { Aff::Rt };
        let mut lvl = vec![];
        for _ in 0..n {
            let a = if infix_only { single } else { *rng.pick(&[Aff::Pre, Aff::Post, Aff::L, Aff::Rt, Aff::L, Aff::Rt]) };
            let r = if !distinct && next_rule > 1 && rng.chance(1, 8) { rng.range(1, (next_rule - 1) as usize) as u8 } else { let r = next_rule; next_rule += 1; r };
            lvl.push((r, a));
        }
        levels.push(lvl);
    }
    levels
}
fn gen_toks(rng: &mut Rng, levels: &Levels, maxlen: usize, wellformed: bool) -> Vec<u8> {
    let t = table(levels);
    let pick_aff = |rng: &mut Rng, f: &dyn Fn(Aff) -> bool| -> Option<u8> { let v: Vec<u8> = t.iter().filter(|(_, (a, _))| f(*a)).map(|(r, _)| *r).collect(); if v.is_empty() { None } else { Some(*rng.pick(&v)) } };
    let mut toks = vec![];
    if !wellformed {
        let n = rng.range(0, maxlen.min(8));
        let all: Vec<u8> = t.keys().cloned().chain([90u8, 91]).collect();
        for _ in 0..n { toks.push(*rng.pick(&all)); }
        return toks;
    }
    loop {
        while rng.chance(1, 3) { if let Some(r) = pick_aff(rng, &|a| a == Aff::Pre) { toks.push(r) } else { break } }
        toks.push(90 + rng.below(4) as u8);
        while rng.chance(1, 3) { if let Some(r) = pick_aff(rng, &|a| a == Aff::Post) { toks.push(r) } else { break } }
        if toks.len() >= maxlen || rng.chance(1, 6) { break; }
        match pick_aff(rng, &|a| matches!(a, Aff::L | Aff::Rt)) { Some(r) => toks.push(r), None => break }
    }
    toks
}

fn main() {
    quiet_panics();
    let mut out = Out::new();
    match cli() {
        Cmd::Run { ops, out: dir } => { for l in &ops { let (i, v) = eval_line(l); out.push(l.clone(), i, v); } out.write(&dir, "{}"); }
        Cmd::Gen { thorough, seed, out: dir } => {
            let mut rng = Rng::new(seed);
            let ntab = if thorough { 6000 } else { 1200 };
            let maxlen = if thorough { 80 } else { 15 };
            let mut kinds: BTreeMap<&str, u64> = BTreeMap::new();
            let mut distinct = std::collections::HashSet::new();
            let (mut wfn, mut ill, mut lens) = (0u64, 0u64, BTreeMap::<usize, u64>::new());
            for ti in 0..ntab {
                let infix_only = ti % 3 == 0;
                let levels = gen_table(&mut rng, infix_only, infix_only);
                let ls = show_levels(&levels);
                for si in 0..12 {
                    let wf = si % 6 != 5;
                    let ml = if si == 0 { maxlen } else { rng.range(1, maxlen) };
                    let toks = gen_toks(&mut rng, &levels, ml, wf);
                    let ts = show_toks(&toks);
                    if shunting_yard(&levels, &toks).is_some() { wfn += 1; if toks.len() >= 5 { distinct.insert(format!("{} {}", ls, ts)); } } else { ill += 1; }
                    *lens.entry(toks.len().min(40) / 5 * 5).or_default() += 1;
                    let mut ks = vec!["pratt", "sy"];
                    if levels.iter().map(|l| l.len()).sum::<usize>() <= 12 { ks.push("const"); }
                    if climber_ok(&levels) { ks.push("climber"); }
                    for k in ks { let l = format!("T {} {} {}", k, ls, ts); let (i, v) = eval_line(&l); *kinds.entry(k).or_default() += 1; out.push(l, i, v); }
                }
            }
            let samples: Vec<String> = out.ops.iter().step_by((out.ops.len() / 6).max(1)).take(6).cloned().collect();
            let stats = format!("{{\"evaluations\":{},\"tables\":{},\"distinct_nontrivial\":{},\"well_formed_sequences\":{},\"ill_formed_sequences\":{},\"max_sequence_length\":{},\"by_parser\":{:?},\"length_histogram\":{:?},\"samples\":{:?}}}",
                out.ops.len(), ntab, distinct.len(), wfn, ill, maxlen, kinds, lens, samples);
            out.write(&dir, &stats);
        }
    }
}
