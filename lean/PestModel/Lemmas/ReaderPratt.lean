import PestModel.Model.Reader
import PestModel.Thm.C13
/-! helper lemmas for C07: the operator-precedence stage with the reader's table. -/
namespace PestModel.Reader
open PestModel.Pratt

/-- canonical skeletons (same as `C07.Canon`). -/
def BinCanon : Bin → Prop
  | .leaf _ => True
  | .seq a b => BinCanon a ∧ 2 ≤ a.level ∧ b.level = 3
  | .alt a b => BinCanon a ∧ BinCanon b ∧ 2 ≤ b.level

/-- token sequence (same as `C07.toks`). -/
def binToks : Bin → List Nat
  | .leaf i => [100 + i]
  | .seq a b => binToks a ++ [seqTok] ++ binToks b
  | .alt a b => binToks a ++ [altTok] ++ binToks b

def treeOf : Bin → Tree
  | .leaf i => .prim (100 + i)
  | .seq a b => .inf (treeOf a) seqTok (treeOf b)
  | .alt a b => .inf (treeOf a) altTok (treeOf b)

theorem ofTree_treeOf : ∀ e, ofTree (treeOf e) = some e
  | .leaf i => by simp [treeOf, ofTree]
  | .seq a b => by simp [treeOf, ofTree, ofTree_treeOf a, ofTree_treeOf b]
  | .alt a b => by simp [treeOf, ofTree, ofTree_treeOf a, ofTree_treeOf b, seqTok, altTok]

theorem readerTable_alt : readerTable altTok = some (.infix .left, 20) := by decide
theorem readerTable_seq : readerTable seqTok = some (.infix .left, 30) := by decide
theorem readerTable_prim (i : Nat) : readerTable (100 + i) = none := by
  simp only [readerTable, prattTable, prattEntries, lookupLast, altTok, seqTok, List.map_cons,
    List.map_nil, List.append_nil, List.cons_append, List.nil_append, List.reverse_cons, List.reverse_nil]
  rw [List.find?_cons_of_neg (by simp; omega), List.find?_cons_of_neg (by simp; omega)]
  rfl

theorem wf_binToks : ∀ (e : Bin) (rest : List Nat),
    wf readerTable true (binToks e ++ rest) = wf readerTable false rest
  | .leaf i, rest => by simp [binToks, wf, readerTable_prim]
  | .seq a b, rest => by
    simp only [binToks, List.append_assoc, List.cons_append, List.nil_append]
    rw [wf_binToks a, wf, readerTable_seq]
    exact wf_binToks b rest
  | .alt a b, rest => by
    simp only [binToks, List.append_assoc, List.cons_append, List.nil_append]
    rw [wf_binToks a, wf, readerTable_alt]
    exact wf_binToks b rest

theorem wellFormed_binToks (e : Bin) : WellFormed readerTable (binToks e) := by
  have := wf_binToks e []
  simpa [WellFormed, wf] using this

/-- binding power of the top operator. -/
def Bin.prec : Bin → Nat
  | .leaf _ => 30
  | .seq _ _ => 30
  | .alt _ _ => 20

theorem reduceWhile_stop {p : Nat} {ops : List Pending} {out : List Tree}
    (h : ∀ o ops', ops = o :: ops' → o.rbp < p) : reduceWhile p ops out = some (ops, out) := by
  cases ops with
  | nil => rfl
  | cons o ops' =>
    have := h o ops' rfl
    rw [reduceWhile, if_neg (by omega)]

theorem sy_binToks : ∀ (e : Bin), BinCanon e → ∀ (ops : List Pending) (out : List Tree),
    (∀ o ops', ops = o :: ops' → o.rbp < e.prec) →
    ∃ ops' out', (∀ rest, sy readerTable true (binToks e ++ rest) ops out = sy readerTable false rest ops' out') ∧
      ∀ p, p ≤ e.prec → reduceWhile p ops' out' = reduceWhile p ops (treeOf e :: out)
  | .leaf i, _, ops, out, _ => by
    refine ⟨ops, .prim (100 + i) :: out, fun rest => ?_, fun p _ => rfl⟩
    simp [binToks, sy, readerTable_prim]
  | .seq a (.leaf j), hc, ops, out, hops => by
    obtain ⟨hca, hla, _⟩ := hc
    simp only [Bin.prec] at hops
    have hpa : a.prec = 30 := by cases a <;> simp_all [Bin.level, Bin.prec]
    obtain ⟨ops1, out1, h1, h1r⟩ := sy_binToks a hca ops out (by rw [hpa]; exact hops)
    refine ⟨.inf seqTok 30 .left :: ops, .prim (100 + j) :: treeOf a :: out, fun rest => ?_, fun p hp => ?_⟩
    · simp only [binToks, List.append_assoc, List.cons_append, List.nil_append]
      rw [h1, sy, readerTable_seq]
      simp only
      rw [h1r 30 (by omega), reduceWhile_stop hops]
      simp only
      rw [sy, readerTable_prim]
    · simp only [Bin.prec] at hp
      rw [reduceWhile, if_pos (by simp [Pending.rbp]; omega)]
      simp [applyPending, treeOf]
  | .seq a (.seq _ _), hc, _, _, _ => by simp [BinCanon, Bin.level] at hc
  | .seq a (.alt _ _), hc, _, _, _ => by simp [BinCanon, Bin.level] at hc
  | .alt a b, hc, ops, out, hops => by
    obtain ⟨hca, hcb, hlb⟩ := hc
    simp only [Bin.prec] at hops
    have hpa : 20 ≤ a.prec := by cases a <;> simp [Bin.prec]
    have hpb : b.prec = 30 := by cases b <;> simp_all [Bin.level, Bin.prec]
    obtain ⟨ops1, out1, h1, h1r⟩ := sy_binToks a hca ops out (fun o ops' h => by have := hops o ops' h; omega)
    obtain ⟨ops2, out2, h2, h2r⟩ := sy_binToks b hcb (.inf altTok 20 .left :: ops) (treeOf a :: out)
      (fun o ops' h => by cases h; simp [Pending.rbp, hpb])
    refine ⟨ops2, out2, fun rest => ?_, fun p hp => ?_⟩
    · simp only [binToks, List.append_assoc, List.cons_append, List.nil_append]
      rw [h1, sy, readerTable_alt]
      simp only
      rw [h1r 20 hpa, reduceWhile_stop hops]
      simp only
      rw [h2]
    · simp only [Bin.prec] at hp
      rw [h2r p (by omega), reduceWhile, if_pos (by simp [Pending.rbp]; omega)]
      simp [applyPending, treeOf]

theorem shuntingYard_binToks (e : Bin) (h : BinCanon e) :
    shuntingYard readerTable (binToks e) = some (treeOf e) := by
  obtain ⟨ops', out', h1, h2⟩ := sy_binToks e h [] [] (by simp)
  have := h1 []
  rw [List.append_nil] at this
  rw [shuntingYard, this, sy, h2 0 (by omega)]
  simp [reduceWhile]

theorem parse_binToks (e : Bin) (h : BinCanon e) :
    ∃ t, parse readerTable (binToks e) = .ok (t, []) ∧ ofTree t = some e := by
  obtain ⟨t, hp, hs⟩ := C13.pratt_eq_shuntingYard readerTable (binToks e)
    (C13.prattTable_pos _) (wellFormed_binToks e)
  rw [shuntingYard_binToks e h] at hs
  cases hs
  exact ⟨_, hp, ofTree_treeOf e⟩

end PestModel.Reader
