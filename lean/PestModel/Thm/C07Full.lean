import PestModel.Model.ReaderFull
import PestModel.Thm.C07
/-!
# C07 (whole reader) — facts about `ReaderFull.consumeRules`

`ReaderFull.readGrammar` is the executable model of `parse(Rule::grammar_rules, _)` followed by
`consume_rules`; it is tied to the real reader by the correspondence run (driver lines `R`/`RX`).
Proved here, about the model:

* `consumeRules_iff`       — `consumeRules` = the syntactic conversion, accepted iff `validate_ast` is silent;
* `consumeExpr_fold`       — the infix stage of `consume_expr` (the `PrattParser` of the reader, through
                             `C07.pratt_rebuilds`) is the fold in which `~` binds tighter than `|` and both
                             group to the left (`fold_groups`: choice-fold of the sequence-folds of the
                             `|`-separated groups); a leading `|` is skipped (`consumeExpr_lead`);
* `unaries_*`              — one lemma per pair kind: the optional tag wraps the whole term (and is dropped
                             without `grammar-extras`), prefix operators apply right to left around the
                             node with its postfix operators, postfix operators apply left to right;
* `consumeExpr_mono`/`unaries_mono`/`consumeRulesGo_mono` — a result obtained with some fuel is obtained
                             with any larger fuel (the fuel only bounds the recursion).

The tokenisation by the meta-grammar itself (spacing, comments) is not covered: that part is the
reference denotation of `Gen.Meta.rules`, compared with the generated parser by C14.
-/
namespace PestModel.C07Full
open PestModel.Reader PestModel.ReaderFull PestModel.G
open PestModel.Views (Tree)
open PestModel.LineCol (Str)

/-! ### validation -/

/-- `consume_rules` returns the converted rules exactly when `validate_ast` finds nothing. -/
theorem consumeRules_iff (extras : Bool) (text : Str) (forest : List Tree) (rs : List Rule) :
    consumeRules extras text forest = some rs ↔
      consumeRulesWithSpans extras text forest = some rs ∧ PestModel.V.validateAst extras rs = [] := by
  unfold consumeRules
  cases h : consumeRulesWithSpans extras text forest with
  | none => simp
  | some rules =>
    by_cases hv : PestModel.V.validateAst extras rules = []
    · simp [hv]
      intro h'; subst h'; exact hv
    · have : (PestModel.V.validateAst extras rules).isEmpty = false := by
        cases hh : PestModel.V.validateAst extras rules with
        | nil => exact absurd hh hv
        | cons _ _ => rfl
      simp [this]
      intro h'; subst h'; exact hv

/-- without a parse there are no rules. -/
theorem readGrammar_some (extras : Bool) (text : Str) (rs : List Rule) (h : readGrammar extras text = some rs) :
    ∃ st forest, PestModel.Ref.meaning PestModel.Gen.Meta.rules false noUni 1000000 "grammar_rules" text = .ok st forest ∧
      consumeRules extras text forest = some rs := by
  unfold readGrammar at h
  split at h
  · exact ⟨_, _, by assumption, h⟩
  · cases h

/-! ### the infix stage -/

/-- `true` = `|`, `false` = `~`. -/
def opTok (o : Bool) : Nat := if o then altTok else seqTok

/-- tokens of `(op term)*`, terms numbered from `i`. -/
def opToks : Nat → List Bool → List Nat
  | _, [] => []
  | i, o :: r => opTok o :: (100 + i) :: opToks (i + 1) r

def joinB : Option Bin → Bin → Bin
  | none, c => c
  | some a, c => .alt a c

/-- the skeleton the reader builds: `acc` = the alternatives closed so far, `cur` = the sequence being
extended. -/
def shapeGo : Option Bin → Bin → Nat → List Bool → Bin
  | acc, cur, _, [] => joinB acc cur
  | acc, cur, i, false :: r => shapeGo acc (.seq cur (.leaf i)) (i + 1) r
  | acc, cur, i, true :: r => shapeGo (some (joinB acc cur)) (.leaf i) (i + 1) r

def shape (ops : List Bool) : Bin := shapeGo none (.leaf 0) 1 ops

def accToks : Option Bin → List Nat
  | none => []
  | some a => C07.toks a ++ [altTok]

theorem toks_joinB (acc : Option Bin) (cur : Bin) : C07.toks (joinB acc cur) = accToks acc ++ C07.toks cur := by
  cases acc <;> simp [joinB, accToks, C07.toks]

theorem toks_shapeGo (ops : List Bool) : ∀ (acc : Option Bin) (cur : Bin) (i : Nat),
    C07.toks (shapeGo acc cur i ops) = accToks acc ++ C07.toks cur ++ opToks i ops := by
  induction ops with
  | nil => intro acc cur i; simp [shapeGo, opToks, toks_joinB]
  | cons o r ih =>
    intro acc cur i
    cases o
    · simp [shapeGo, ih, opToks, opTok, C07.toks]
    · simp [shapeGo, ih, opToks, opTok, C07.toks, accToks, toks_joinB]

theorem canon_joinB (acc : Option Bin) (cur : Bin) (ha : ∀ a, acc = some a → C07.Canon a)
    (hc : C07.Canon cur) (hl : 2 ≤ cur.level) : C07.Canon (joinB acc cur) := by
  cases acc with
  | none => exact hc
  | some a => exact ⟨ha a rfl, hc, hl⟩

theorem canon_shapeGo (ops : List Bool) : ∀ (acc : Option Bin) (cur : Bin) (i : Nat),
    (∀ a, acc = some a → C07.Canon a) → C07.Canon cur → 2 ≤ cur.level → C07.Canon (shapeGo acc cur i ops) := by
  induction ops with
  | nil => intro acc cur i ha hc hl; exact canon_joinB acc cur ha hc hl
  | cons o r ih =>
    intro acc cur i ha hc hl
    cases o
    · exact ih acc (.seq cur (.leaf i)) (i + 1) ha ⟨hc, hl, rfl⟩ (by simp [Bin.level])
    · refine ih (some (joinB acc cur)) (.leaf i) (i + 1) ?_ trivial (by simp [Bin.level])
      intro a h; cases h; exact canon_joinB acc cur ha hc hl

/-- the reader's Pratt parser on `term (op term)*` builds `shape ops`. -/
theorem pratt_shape (ops : List Bool) :
    ∃ t, Pratt.parse readerTable (100 :: opToks 1 ops) = .ok (t, []) ∧ ofTree t = some (shape ops) := by
  have h := C07.pratt_rebuilds (shape ops)
    (canon_shapeGo ops none (.leaf 0) 1 (by intro a h; cases h) trivial (by simp [Bin.level]))
  have ht : C07.toks (shape ops) = 100 :: opToks 1 ops := by
    simp [shape, toks_shapeGo, accToks, C07.toks]
  rwa [ht] at h

/-! #### pairs -/

def IsTerm (t : Tree) : Prop := kind t ≠ "choice_operator" ∧ kind t ≠ "sequence_operator"
def IsOpOf (t : Tree) (o : Bool) : Prop := kind t = if o then "choice_operator" else "sequence_operator"

/-- `ps` is `(op term)*` and `rd` reads the terms as `xs`. -/
inductive Reads (rd : Tree → Option Expr) : List Tree → List (Bool × Expr) → Prop
  | nil : Reads rd [] []
  | cons {p t ps o x xs} : IsOpOf p o → IsTerm t → rd t = some x → Reads rd ps xs →
      Reads rd (p :: t :: ps) ((o, x) :: xs)

theorem isOp_term {t : Tree} (h : IsTerm t) : isOp t = false := by
  simp [isOp, h.1, h.2]

theorem isOp_op {t : Tree} {o : Bool} (h : IsOpOf t o) : isOp t = true := by
  cases o <;> simp_all [isOp, IsOpOf]

theorem tokens_term {t : Tree} (h : IsTerm t) (ps : List Tree) (i : Nat) :
    tokens (t :: ps) i = (100 + i) :: tokens ps (i + 1) := by
  simp [tokens, h.1, h.2]

theorem tokens_op {t : Tree} {o : Bool} (h : IsOpOf t o) (ps : List Tree) (i : Nat) :
    tokens (t :: ps) i = opTok o :: tokens ps i := by
  cases o
  · have h' : kind t = "sequence_operator" := by simpa [IsOpOf] using h
    simp [tokens, h', opTok]
  · have h' : kind t = "choice_operator" := by simpa [IsOpOf] using h
    simp [tokens, h', opTok]

theorem tokens_reads {rd ps xs} (h : Reads rd ps xs) : ∀ i, tokens ps i = opToks i (xs.map (·.1)) := by
  induction h with
  | nil => intro i; simp [tokens, opToks]
  | cons hp ht _ _ ih => intro i; simp [tokens_op hp, tokens_term ht, opToks, ih]

theorem prims_reads {rd ps xs} (h : Reads rd ps xs) :
    (ps.filter fun p => !isOp p).map rd = xs.map fun x => some x.2 := by
  induction h with
  | nil => simp
  | cons hp ht hx _ ih => simp [isOp_op hp, isOp_term ht, hx, ih]

/-! #### the fold -/

def joinE : Option Expr → Expr → Expr
  | none, c => c
  | some a, c => .choice a c

/-- `x₀ op₁ x₁ op₂ x₂ …` read from the left: `~` extends the current sequence, `|` closes it. -/
def foldGo : Option Expr → Expr → List (Bool × Expr) → Expr
  | acc, cur, [] => joinE acc cur
  | acc, cur, (false, x) :: r => foldGo acc (.seq cur x) r
  | acc, cur, (true, x) :: r => foldGo (some (joinE acc cur)) x r

theorem build_joinB (prims : List (Option Expr)) (acc : Option Bin) (cur : Bin) (accE : Option Expr) (curE : Expr)
    (ha : ∀ a, acc = some a → ∃ e, accE = some e ∧ build prims a = some e) (hn : acc = none → accE = none)
    (hc : build prims cur = some curE) : build prims (joinB acc cur) = some (joinE accE curE) := by
  cases acc with
  | none => simp [joinB, hn rfl, joinE, hc]
  | some a =>
    obtain ⟨e, he, hb⟩ := ha a rfl
    simp [joinB, build, hb, hc, he, joinE]

theorem build_shapeGo (prims : List (Option Expr)) (xs : List (Bool × Expr)) :
    ∀ (acc : Option Bin) (cur : Bin) (i : Nat) (accE : Option Expr) (curE : Expr),
      (∀ a, acc = some a → ∃ e, accE = some e ∧ build prims a = some e) → (acc = none → accE = none) →
      build prims cur = some curE →
      (∀ k (hk : k < xs.length), prims[i + k]? = some (some (xs[k]).2)) →
      build prims (shapeGo acc cur i (xs.map (·.1))) = some (foldGo accE curE xs) := by
  induction xs with
  | nil => intro acc cur i accE curE ha hn hc _; simpa [shapeGo, foldGo] using build_joinB prims acc cur accE curE ha hn hc
  | cons x r ih =>
    intro acc cur i accE curE ha hn hc hp
    obtain ⟨o, y⟩ := x
    have h0 : prims[i]? = some (some y) := by
      have := hp 0 (by simp)
      simp only [Nat.add_zero, List.getElem_cons_zero] at this
      exact this
    have hr : ∀ k (hk : k < r.length), prims[i + 1 + k]? = some (some (r[k]).2) := by
      intro k hk
      have := hp (k + 1) (by simp; omega)
      have e : i + 1 + k = i + (k + 1) := by omega
      rw [e]; simpa using this
    cases o
    · simp only [List.map_cons, shapeGo, foldGo]
      exact ih acc (.seq cur (.leaf i)) (i + 1) accE (.seq curE y) ha hn (by simp [build, hc, h0]) hr
    · simp only [List.map_cons, shapeGo, foldGo]
      refine ih (some (joinB acc cur)) (.leaf i) (i + 1) (some (joinE accE curE)) y ?_ (by intro h; cases h)
        (by simp [build, h0]) hr
      intro a h; cases h
      exact ⟨_, rfl, build_joinB prims acc cur accE curE ha hn hc⟩

/-- **the infix stage**: on `t₀ (op t)*` whose terms read as `x₀, xs`, the reader's Pratt parser returns
the left-to-right fold. -/
theorem infixStage_fold (rd : Tree → Option Expr) (t0 : Tree) (ps : List Tree) (x0 : Expr) (xs : List (Bool × Expr))
    (ht : IsTerm t0) (h0 : rd t0 = some x0) (h : Reads rd ps xs) :
    infixStage (t0 :: ps) (((t0 :: ps).filter fun p => !isOp p).map rd) = some (foldGo none x0 xs) := by
  obtain ⟨t, hp, hb⟩ := pratt_shape (xs.map (·.1))
  have htk : tokens (t0 :: ps) 0 = 100 :: opToks 1 (xs.map (·.1)) := by
    rw [tokens_term ht, tokens_reads h]
  have hpr : ((t0 :: ps).filter fun p => !isOp p).map rd = some x0 :: xs.map fun x => some x.2 := by
    simp [isOp_term ht, h0, prims_reads h]
  unfold infixStage
  rw [htk, hp, hpr]
  simp only [hb]
  refine build_shapeGo _ xs none (.leaf 0) 1 none x0 (by intro a h; cases h) (fun _ => rfl) (by simp [build]) ?_
  intro k hk
  have e : 1 + k = k + 1 := by omega
  rw [e]; simp [hk]

/-- **`consume_expr`**: the same for the function itself (with `term` = `unaries` on the inner pairs). -/
theorem consumeExpr_fold (extras : Bool) (text : Str) (f : Nat) (pairs : List Tree) (t0 : Tree) (ps : List Tree)
    (x0 : Expr) (xs : List (Bool × Expr)) (hd : dropLead pairs = t0 :: ps) (ht : IsTerm t0)
    (h0 : unaries extras text f t0.children = some x0)
    (h : Reads (fun p => unaries extras text f p.children) ps xs) :
    consumeExpr extras text (f + 1) pairs = some (foldGo none x0 xs) := by
  simp only [consumeExpr, consumeExprStep, hd]
  exact infixStage_fold (fun p => unaries extras text f p.children) t0 ps x0 xs ht h0 h

/-- a leading `|` is skipped (at every nesting level: `consumeExpr` is what `unaries` calls for a
parenthesised expression and for `PUSH(…)`). -/
theorem consumeExpr_lead (extras : Bool) (text : Str) (f : Nat) (p : Tree) (pairs : List Tree)
    (hp : kind p = "choice_operator") (hq : ∀ q r, pairs = q :: r → kind q ≠ "choice_operator") :
    consumeExpr extras text (f + 1) (p :: pairs) = consumeExpr extras text (f + 1) pairs := by
  have h1 : dropLead (p :: pairs) = pairs := by simp [dropLead, hp]
  have h2 : dropLead pairs = pairs := by
    cases pairs with
    | nil => rfl
    | cons q r => simp [dropLead, hq q r rfl]
  simp only [consumeExpr, consumeExprStep, h1, h2]

/-! #### `~` binds tighter than `|`, both group to the left -/

/-- a `|`-separated group `y₀ ~ y₁ ~ …`. -/
def seqFold (g : Expr × List Expr) : Expr := g.2.foldl .seq g.1

/-- the `(op, term)` list of the groups after the first one. -/
def flat : List (Expr × List Expr) → List (Bool × Expr)
  | [] => []
  | g :: gs => (true, g.1) :: g.2.map (fun y => (false, y)) ++ flat gs

theorem foldGo_seq (acc : Option Expr) (ys : List Expr) : ∀ (cur : Expr) (rest : List (Bool × Expr)),
    foldGo acc cur (ys.map (fun y => (false, y)) ++ rest) = foldGo acc (ys.foldl .seq cur) rest := by
  induction ys with
  | nil => intro cur rest; rfl
  | cons y r ih => intro cur rest; simp [foldGo, ih]

theorem foldGo_flat (gs : List (Expr × List Expr)) : ∀ (acc : Option Expr) (cur : Expr),
    foldGo acc cur (flat gs) = (gs.map seqFold).foldl .choice (joinE acc cur) := by
  induction gs with
  | nil => intro acc cur; rfl
  | cons g r ih =>
    intro acc cur
    simp only [flat, List.cons_append, foldGo, foldGo_seq, ih]
    simp [joinE, seqFold]

/-- **precedence and associativity**: `g₀ | g₁ | … | gₙ` with `gᵢ = yᵢ₀ ~ yᵢ₁ ~ …` is read as the
left-nested choice of the left-nested sequences. -/
theorem fold_groups (g0 : Expr × List Expr) (gs : List (Expr × List Expr)) :
    foldGo none g0.1 (g0.2.map (fun y => (false, y)) ++ flat gs) = (gs.map seqFold).foldl .choice (seqFold g0) := by
  rw [foldGo_seq, foldGo_flat]; rfl

/-! ### `unaries`: tag, prefix operators, node, postfix operators -/

/-- no `assignment_operator` in second position: the first pair is not a tag. -/
def NoTag (rest : List Tree) : Prop := ∀ q r, rest = q :: r → kind q ≠ "assignment_operator"

theorem getNodeTag_plain (text : Str) (p : Tree) (rest : List Tree) (h : NoTag rest) :
    getNodeTag text (p :: rest) = some (p, rest, none) := by
  cases rest with
  | nil => rfl
  | cons q r => simp [getNodeTag, h q r rfl]

theorem wrapTag_none (extras : Bool) (node : Option Expr) : wrapTag extras node none = node := by
  cases node <;> rfl

/-- an untagged term is read by the dispatch on its first pair. -/
theorem unaries_plain (extras : Bool) (text : Str) (f : Nat) (p : Tree) (rest : List Tree) (h : NoTag rest) :
    unaries extras text (f + 1) (p :: rest) =
      nodeOf extras text (consumeExpr extras text f) (unaries extras text f) p rest := by
  simp [unaries, unariesStep, getNodeTag_plain text p rest h, wrapTag_none]

/-- **the tag wraps the whole term** (prefix and postfix operators included) with `grammar-extras`, and
is dropped without: `#name = term` reads as `term` does, then `NodeTag(_, name)` around it. -/
theorem unaries_tag (extras : Bool) (text : Str) (f : Nat) (tg asg p : Tree) (rest : List Tree) (c : Char) (name : Str)
    (ha : kind asg = "assignment_operator") (hs : strOf text tg = some (c :: name)) (hc : c.utf8Size = 1)
    (h : NoTag rest) :
    unaries extras text (f + 1) (tg :: asg :: p :: rest) =
      (unaries extras text (f + 1) (p :: rest)).map fun e => if extras then .nodeTag e name else e := by
  rw [unaries_plain extras text f p rest h]
  simp only [unaries, unariesStep, getNodeTag, ha, hs, dropFirstByte, hc, if_true]
  cases nodeOf extras text (consumeExpr extras text f) (unaries extras text f) p rest with
  | none => rfl
  | some n => cases extras <;> rfl

/-- `&` applies to everything that follows it in the term. -/
theorem unaries_pos (extras : Bool) (text : Str) (f : Nat) (p : Tree) (rest : List Tree)
    (hk : kind p = "positive_predicate_operator") (h : NoTag rest) :
    unaries extras text (f + 1) (p :: rest) = (unaries extras text f rest).map .posPred := by
  rw [unaries_plain extras text f p rest h]
  simp [nodeOf, hk]

/-- `!` applies to everything that follows it in the term. -/
theorem unaries_neg (extras : Bool) (text : Str) (f : Nat) (p : Tree) (rest : List Tree)
    (hk : kind p = "negative_predicate_operator") (h : NoTag rest) :
    unaries extras text (f + 1) (p :: rest) = (unaries extras text f rest).map .negPred := by
  rw [unaries_plain extras text f p rest h]
  simp [nodeOf, hk]

/-- an opening parenthesis is transparent. -/
theorem unaries_paren (extras : Bool) (text : Str) (f : Nat) (p : Tree) (rest : List Tree)
    (hk : kind p = "opening_paren") (h : NoTag rest) :
    unaries extras text (f + 1) (p :: rest) = unaries extras text f rest := by
  rw [unaries_plain extras text f p rest h]
  simp [nodeOf, hk]

/-- a parenthesised expression, then the postfix operators (the `closing_paren` is the first of them). -/
theorem unaries_expression (extras : Bool) (text : Str) (f : Nat) (p : Tree) (rest : List Tree)
    (hk : kind p = "expression") (h : NoTag rest) :
    unaries extras text (f + 1) (p :: rest) =
      (consumeExpr extras text f p.children).bind fun n => postfixes text n rest := by
  rw [unaries_plain extras text f p rest h]
  simp only [nodeOf, hk]
  cases consumeExpr extras text f p.children <;> simp

/-- `PUSH(e)`, then the postfix operators. -/
theorem unaries_push (extras : Bool) (text : Str) (f : Nat) (p o e : Tree) (cs rest : List Tree)
    (hk : kind p = "_push") (hc : p.children = o :: e :: cs) (h : NoTag rest) :
    unaries extras text (f + 1) (p :: rest) =
      (consumeExpr extras text f e.children).bind fun n => postfixes text (.push n) rest := by
  rw [unaries_plain extras text f p rest h]
  simp only [nodeOf, hk, hc]
  cases consumeExpr extras text f e.children <;> simp

/-- every other node is a leaf (`leafNode`), then the postfix operators. -/
theorem unaries_leaf (extras : Bool) (text : Str) (f : Nat) (p : Tree) (rest : List Tree)
    (h1 : kind p ≠ "opening_paren") (h2 : kind p ≠ "positive_predicate_operator")
    (h3 : kind p ≠ "negative_predicate_operator") (h4 : kind p ≠ "expression") (h5 : kind p ≠ "_push")
    (h : NoTag rest) :
    unaries extras text (f + 1) (p :: rest) = (leafNode extras text p).bind fun n => postfixes text n rest := by
  rw [unaries_plain extras text f p rest h]
  simp only [nodeOf, h1, h2, h3, h4, h5]
  cases leafNode extras text p <;> simp

/-- postfix operators apply left to right, the first one innermost. -/
theorem postfixes_cons (text : Str) (n : Expr) (p : Tree) (ps : List Tree) :
    postfixes text n (p :: ps) = (postfixOp text n p).bind fun m => postfixes text m ps := by
  simp [postfixes, List.foldlM_cons]

theorem postfixes_nil (text : Str) (n : Expr) : postfixes text n [] = some n := rfl

/-- without `grammar-extras`, `PUSH_LITERAL(…)` is an error wherever it occurs in a term. -/
theorem leafNode_pushLiteral_default (text : Str) (p : Tree) (hk : kind p = "_push_literal") :
    leafNode false text p = none := by
  simp [leafNode, hk]

/-! ### fuel only bounds the recursion -/

theorem build_mono (prims prims' : List (Option Expr))
    (h : ∀ (i : Nat) (x : Expr), prims[i]? = some (some x) → prims'[i]? = some (some x)) :
    ∀ (b : Bin) (e : Expr), build prims b = some e → build prims' b = some e := by
  intro b
  induction b with
  | leaf i =>
    intro e he
    simp only [build] at he ⊢
    cases hp : prims[i]? with
    | none => simp [hp] at he
    | some r =>
      simp only [hp] at he
      subst he
      simp [h i e hp]
  | seq a b iha ihb =>
    intro e he
    simp only [build] at he ⊢
    cases ha : build prims a with
    | none => simp [ha] at he
    | some x =>
      cases hb : build prims b with
      | none => simp [ha, hb] at he
      | some y =>
        simp only [ha, hb] at he
        simp [iha x ha, ihb y hb, he]
  | alt a b iha ihb =>
    intro e he
    simp only [build] at he ⊢
    cases ha : build prims a with
    | none => simp [ha] at he
    | some x =>
      cases hb : build prims b with
      | none => simp [ha, hb] at he
      | some y =>
        simp only [ha, hb] at he
        simp [iha x ha, ihb y hb, he]

theorem infixStage_mono (ps : List Tree) (prims prims' : List (Option Expr))
    (h : ∀ (i : Nat) (x : Expr), prims[i]? = some (some x) → prims'[i]? = some (some x)) (e : Expr)
    (he : infixStage ps prims = some e) : infixStage ps prims' = some e := by
  unfold infixStage at he ⊢
  split at he
  · rename_i t _ hp
    split at he
    · rename_i b hb
      exact build_mono prims prims' h b e he
    · cases he
  · cases he

/-- `un ≤ un'`: whatever `un` reads, `un'` reads the same. -/
def Le (g g' : List Tree → Option Expr) : Prop := ∀ ps e, g ps = some e → g' ps = some e

theorem consumeExprStep_mono (un un' : List Tree → Option Expr) (h : Le un un') : Le (consumeExprStep un) (consumeExprStep un') := by
  intro pairs e he
  unfold consumeExprStep at he ⊢
  refine infixStage_mono _ _ _ ?_ e he
  intro i x hx
  simp only [List.getElem?_map] at hx ⊢
  cases hl : ((dropLead pairs).filter fun p => !isOp p)[i]? with
  | none => simp [hl] at hx
  | some t =>
    simp only [hl, Option.map_some, Option.some.injEq] at hx ⊢
    exact h _ _ hx

theorem nodeOf_mono (extras : Bool) (text : Str) (ce ce' un un' : List Tree → Option Expr) (hc : Le ce ce') (hu : Le un un')
    (pair : Tree) (rest : List Tree) (e : Expr) (he : nodeOf extras text ce un pair rest = some e) :
    nodeOf extras text ce' un' pair rest = some e := by
  unfold nodeOf at he ⊢
  simp only at he ⊢
  split
  · rename_i h1; simp only [h1, if_true] at he; exact hu _ _ he
  · rename_i h1
    simp only [h1, if_false] at he
    split
    · rename_i h2
      simp only [h2, if_true] at he
      cases hr : un rest with
      | none => simp [hr] at he
      | some n => simp only [hr, Option.map_some] at he; simp [hu _ _ hr, he]
    · rename_i h2
      simp only [h2, if_false] at he
      split
      · rename_i h3
        simp only [h3, if_true] at he
        cases hr : un rest with
        | none => simp [hr] at he
        | some n => simp only [hr, Option.map_some] at he; simp [hu _ _ hr, he]
      · rename_i h3
        simp only [h3, if_false] at he
        by_cases h4 : kind pair = "expression"
        · simp only [h4, if_true] at he ⊢
          cases hr : ce pair.children with
          | none => simp [hr] at he
          | some n => simp only [hr] at he; simp only [hc _ _ hr]; exact he
        · simp only [h4, if_false] at he ⊢
          by_cases h5 : kind pair = "_push"
          · simp only [h5, if_true] at he ⊢
            cases hch : pair.children with
            | nil => simp [hch] at he
            | cons o r =>
              cases r with
              | nil => simp [hch] at he
              | cons ex r' =>
                simp only [hch] at he ⊢
                cases hr : ce ex.children with
                | none => simp [hr] at he
                | some n => simp only [hr, Option.map_some] at he; simp only [hc _ _ hr, Option.map_some]; exact he
          · simp only [h5, if_false] at he ⊢
            exact he

theorem wrapTag_mono (extras : Bool) (node node' : Option Expr) (tag : Option Str)
    (h : ∀ e, node = some e → node' = some e) (e : Expr) (he : wrapTag extras node tag = some e) :
    wrapTag extras node' tag = some e := by
  cases node with
  | none => cases tag <;> simp [wrapTag] at he
  | some n => rw [h n rfl]; exact he

theorem unariesStep_mono (extras : Bool) (text : Str) (ce ce' un un' : List Tree → Option Expr) (hc : Le ce ce') (hu : Le un un') :
    Le (unariesStep extras text ce un) (unariesStep extras text ce' un') := by
  intro pairs e he
  unfold unariesStep at he ⊢
  cases hg : getNodeTag text pairs with
  | none => simp [hg] at he
  | some v =>
    obtain ⟨pair, rest, tag⟩ := v
    simp only [hg] at he ⊢
    exact wrapTag_mono extras _ _ tag (fun n hn => nodeOf_mono extras text ce ce' un un' hc hu pair rest n hn) e he

theorem mono_step (extras : Bool) (text : Str) : ∀ f,
    Le (consumeExpr extras text f) (consumeExpr extras text (f + 1)) ∧
    Le (unaries extras text f) (unaries extras text (f + 1)) := by
  intro f
  induction f with
  | zero => exact ⟨by intro ps e h; simp [consumeExpr] at h, by intro ps e h; simp [unaries] at h⟩
  | succ f ih =>
    refine ⟨?_, ?_⟩
    · intro ps e h
      simp only [consumeExpr] at h ⊢
      exact consumeExprStep_mono _ _ ih.2 ps e h
    · intro ps e h
      simp only [unaries] at h ⊢
      exact unariesStep_mono extras text _ _ _ _ ih.1 ih.2 ps e h

/-- **more fuel never changes a result** of `consume_expr`. -/
theorem consumeExpr_mono (extras : Bool) (text : Str) (f g : Nat) (hfg : f ≤ g) (ps : List Tree) (e : Expr)
    (h : consumeExpr extras text f ps = some e) : consumeExpr extras text g ps = some e := by
  induction hfg with
  | refl => exact h
  | step _ ih => exact (mono_step extras text _).1 ps e ih

/-- **more fuel never changes a result** of `unaries`. -/
theorem unaries_mono (extras : Bool) (text : Str) (f g : Nat) (hfg : f ≤ g) (ps : List Tree) (e : Expr)
    (h : unaries extras text f ps = some e) : unaries extras text g ps = some e := by
  induction hfg with
  | refl => exact h
  | step _ ih => exact (mono_step extras text _).2 ps e ih

theorem consumeRule_mono (extras : Bool) (text : Str) (f g : Nat) (hfg : f ≤ g) (t : Tree) (r : Rule)
    (h : consumeRule extras text f t = some r) : consumeRule extras text g t = some r := by
  unfold consumeRule at h ⊢
  cases hp : ruleParts text t with
  | none => simp [hp] at h
  | some v =>
    obtain ⟨name, ty, inner⟩ := v
    simp only [hp] at h ⊢
    cases hb : consumeExpr extras text f (dropLead inner) with
    | none => simp [hb] at h
    | some body =>
      simp only [hb, Option.map_some] at h
      simp only [consumeExpr_mono extras text f g hfg _ body hb, Option.map_some]
      exact h

/-- **more fuel never changes the rules read** (so `consumeRulesWithSpans`, which supplies the size of
the forest, agrees with every larger budget whenever it answers). -/
theorem consumeRulesGo_mono (extras : Bool) (text : Str) (f g : Nat) (hfg : f ≤ g) (forest : List Tree) :
    ∀ rs, consumeRulesGo extras text f forest = some rs → consumeRulesGo extras text g forest = some rs := by
  induction forest with
  | nil => intro rs h; simpa [consumeRulesGo] using h
  | cons t ts ih =>
    intro rs h
    simp only [consumeRulesGo] at h ⊢
    split
    · rename_i hk
      simp only [hk, if_true] at h
      cases hc : t.children with
      | nil => simp [hc] at h
      | cons c cs =>
        simp only [hc] at h ⊢
        split
        · rename_i hl; simp only [hl, if_true] at h; exact ih rs h
        · rename_i hl
          simp only [hl, if_false] at h
          cases h1 : consumeRule extras text f t with
          | none => simp [h1] at h
          | some r =>
            cases h2 : consumeRulesGo extras text f ts with
            | none => simp [h1, h2] at h
            | some rs' =>
              simp only [h1, h2] at h
              simp only [consumeRule_mono extras text f g hfg t r h1, ih rs' h2]
              exact h
    · rename_i hk
      simp only [hk, if_false] at h
      exact ih rs h

/-! ### non-vacuity

Pairs built by hand (rule numbers looked up by name, spans into the text): `|a~b|c` with its leading
`|`, and the term `#t=&a*`. The first also instantiates `consumeExpr_fold` (its hypotheses hold for the
pairs of `a~b|c`). -/

def ix (n : String) : Nat := metaNames.idxOf n
def identTerm (a b : Nat) : Tree := .node (ix "term") a b none [.node (ix "identifier") a b none []]
def opPair (n : String) (a : Nat) : Tree := .node (ix n) a (a + 1) none []

set_option maxRecDepth 100000 in
example : consumeExpr false "|a~b|c".toList 3
    [opPair "choice_operator" 0, identTerm 1 2, opPair "sequence_operator" 2, identTerm 3 4,
      opPair "choice_operator" 4, identTerm 5 6] =
    some (.choice (.seq (.ident "a") (.ident "b")) (.ident "c")) := by decide

set_option maxRecDepth 100000 in
example : consumeExpr false "|a~b|c".toList 3
    [opPair "choice_operator" 0, identTerm 1 2, opPair "sequence_operator" 2, identTerm 3 4,
      opPair "choice_operator" 4, identTerm 5 6] =
    some (foldGo none (.ident "a") [(false, .ident "b"), (true, .ident "c")]) :=
  consumeExpr_fold false _ 2 _ (identTerm 1 2)
    [opPair "sequence_operator" 2, identTerm 3 4, opPair "choice_operator" 4, identTerm 5 6]
    (.ident "a") [(false, .ident "b"), (true, .ident "c")]
    (by simp [dropLead, show kind (opPair "choice_operator" 0) = "choice_operator" by decide])
    (by unfold IsTerm; decide) (by decide)
    (.cons (by unfold IsOpOf; decide) (by unfold IsTerm; decide) (by decide)
      (.cons (by unfold IsOpOf; decide) (by unfold IsTerm; decide) (by decide) .nil))

set_option maxRecDepth 100000 in
example :
    let pairs := [Tree.node (ix "tag_id") 0 2 none [], opPair "assignment_operator" 2,
      opPair "positive_predicate_operator" 3, .node (ix "identifier") 4 5 none [], opPair "repeat_operator" 5]
    unaries true "#t=&a*".toList 3 pairs = some (.nodeTag (.posPred (.rep (.ident "a"))) ['t']) ∧
    unaries false "#t=&a*".toList 3 pairs = some (.posPred (.rep (.ident "a"))) := by decide

end PestModel.C07Full
