import PestModel.Lemmas.RefCong
/-! C05 helper lemmas, part 6: the local rewrite laws of rotate / unroll / factor. -/
namespace PestModel.Ref
open PestModel.G
open PestModel.LineCol (Str bLen cLen splitAt?)
open PestModel.Views (Tree)
open PestModel.PS (Atomicity CharSet restAt asciiLower eqIgnoreAsciiCase normalizeIndex)

section
variable {P : St → Prop} {c : Ctx} {m : Atomicity}

/-! ### rotate -/

theorem seq_assoc (a b d : Expr) : EqOn P c m (.seq (.seq a b) d) (.seq a (.seq b d)) := by
  intro la s _
  simp only [val_seq]
  cases val c m la a s <;> simp only []
  rename_i s1 f1
  cases valK c m la s1 <;> simp only []
  rename_i s2 f2
  cases val c m la b s2 <;> simp only []
  rename_i s3 f3
  cases valK c m la s3 <;> simp only []
  rename_i s4 f4
  cases val c m la d s4 <;> simp only [List.append_assoc]

theorem choice_assoc (a b d : Expr) : EqOn P c m (.choice (.choice a b) d) (.choice a (.choice b d)) := by
  intro la s _
  simp only [val_choice]
  cases val c m la a s <;> simp only []

theorem rotateInternal_eqOn (n : Nat) (e : Expr) : EqOn P c m e (rotateInternal n e) := by
  induction n generalizing e with
  | zero => rw [rotateInternal]; exact EqOn.refl e
  | succ n ih =>
    unfold rotateInternal
    split
    · exact EqOn.refl _
    · rename_i h; cases h; exact (seq_assoc _ _ _).trans (ih _)
    · rename_i h; cases h; exact (choice_assoc _ _ _).trans (ih _)
    · exact EqOn.refl _

theorem rotateExpr_eqOn (hP : Inv P c) (e : Expr) : EqOn P c m e (rotateExpr e) :=
  mapTopDown_eqOn hP _ (fun x => rotateInternal_eqOn _ x) _ e

/-! ### unroll -/

theorem unrollF_eqOn {x x' : Expr} (h : unrollF c.extras x = some x') : EqOn P c m x x' := by
  intro la s _
  cases x <;> simp only [unrollF, Option.some.injEq] at h <;> try (subst h; rfl)
  case repOnce e =>
    rw [val_repOnce]
    split at h
    · rename_i hx; simp only [Option.some.injEq] at h; subst h; rw [val_repOnce, if_pos hx]
    · rename_i hx; simp only [Option.some.injEq] at h; subst h; rw [if_neg hx]
  case repExact e n => rw [val_repExact, h]
  case repMin e n => rw [val_repMin, h]
  case repMax e n => rw [val_repMax, h]
  case repMinMax e lo hi => rw [val_repMinMax, h]

theorem unrollExpr_eqOn (hP : Inv P c) (e e' : Expr) (h : unrollExpr c.extras e = some e') : EqOn P c m e e' := by
  induction e generalizing e' <;> simp only [unrollExpr, Option.bind_eq_some_iff] at h
  case posPred e ih => obtain ⟨e1, h1, h2⟩ := h; exact (EqOn.posPred (ih _ h1)).trans (unrollF_eqOn h2)
  case negPred e ih => obtain ⟨e1, h1, h2⟩ := h; exact (EqOn.negPred (ih _ h1)).trans (unrollF_eqOn h2)
  case seq a b iha ihb =>
    obtain ⟨a1, h1, b1, h2, h3⟩ := h; exact (EqOn.seq hP (iha _ h1) (ihb _ h2)).trans (unrollF_eqOn h3)
  case choice a b iha ihb =>
    obtain ⟨a1, h1, b1, h2, h3⟩ := h; exact (EqOn.choice (iha _ h1) (ihb _ h2)).trans (unrollF_eqOn h3)
  case opt e ih => obtain ⟨e1, h1, h2⟩ := h; exact (EqOn.opt (ih _ h1)).trans (unrollF_eqOn h2)
  case rep e ih => obtain ⟨e1, h1, h2⟩ := h; exact (EqOn.rep hP (ih _ h1)).trans (unrollF_eqOn h2)
  case repOnce e ih => obtain ⟨e1, h1, h2⟩ := h; exact (EqOn.repOnce hP (ih _ h1)).trans (unrollF_eqOn h2)
  case repExact e n ih => obtain ⟨e1, h1, h2⟩ := h; exact (EqOn.repExact hP (ih _ h1) n).trans (unrollF_eqOn h2)
  case repMin e n ih => obtain ⟨e1, h1, h2⟩ := h; exact (EqOn.repMin hP (ih _ h1) n).trans (unrollF_eqOn h2)
  case repMax e n ih => obtain ⟨e1, h1, h2⟩ := h; exact (EqOn.repMax hP (ih _ h1) n).trans (unrollF_eqOn h2)
  case repMinMax e lo hi ih =>
    obtain ⟨e1, h1, h2⟩ := h; exact (EqOn.repMinMax hP (ih _ h1) lo hi).trans (unrollF_eqOn h2)
  case push e ih => obtain ⟨e1, h1, h2⟩ := h; exact (EqOn.push (ih _ h1)).trans (unrollF_eqOn h2)
  case nodeTag e t ih => obtain ⟨e1, h1, h2⟩ := h; exact (EqOn.nodeTag (ih _ h1) t).trans (unrollF_eqOn h2)
  all_goals exact unrollF_eqOn h

/-! ### factor -/

theorem factor_law1 (l r1 r2 : Expr) : EqOn P c m (.choice (.seq l r1) (.seq l r2)) (.seq l (.choice r1 r2)) := by
  intro la s _
  simp only [val_choice, val_seq]
  cases val c m la l s <;> simp only []
  rename_i s1 f1
  cases valK c m la s1 <;> simp only []
  rename_i s2 f2
  cases val c m la r1 s2 <;> simp only []

theorem factor_law2 (hm : m ≠ .nonAtomic) (l1 l2 : Expr) : EqOn P c m (.choice (.seq l1 l2) l1) (.seq l1 (.opt l2)) := by
  intro la s _
  simp only [val_choice, val_seq, val_opt, valK_atomic _ _ _ _ hm]
  cases h1 : val c m la l1 s <;> simp only []
  rename_i s1 f1
  cases val c m la l2 s1 <;> simp

theorem factor_law3 (l r : Expr) : EqOn P c m (.choice l (.seq l r)) l := by
  intro la s _
  simp only [val_choice, val_seq]
  cases h1 : val c m la l s <;> simp only []

theorem factorF_eqOn (ty : RuleType) (hm : ty = .atomic ∨ ty = .compound → m ≠ .nonAtomic) (x : Expr) :
    EqOn P c m x (factorF ty x) := by
  unfold factorF
  split
  · split
    · rename_i h; subst h; exact factor_law1 _ _ _
    · exact EqOn.refl _
  · split
    · rename_i h
      split
      · rename_i h'; subst h'; exact factor_law2 (hm h) _ _
      · exact EqOn.refl _
    · exact EqOn.refl _
  · split
    · rename_i h; subst h; exact factor_law3 _ _
    · exact EqOn.refl _
  · exact EqOn.refl _

end
end PestModel.Ref
