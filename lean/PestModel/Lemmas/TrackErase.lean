import PestModel.Lemmas.TrackComb
/-! Lemmas for C08, part 5: on expressions and built-in rules that make no rule call, the
instrumented reference is the reference with the forest forgotten and no calls. -/
namespace PestModel.Track
open PestModel.G PestModel.PS PestModel.Lower PestModel.Ref PestModel.RefTrace PestModel.VmRef
open PestModel.LineCol (Str isBoundary bLen cLen splitAt? slice?)

theorem lit_erase (c : Ctx) (s : St) (str : Str) :
    RefTrace.lit c s str = (eraseR (Ref.lit c s str), []) := by
  unfold RefTrace.lit Ref.lit
  cases restAt c.input s.pos with
  | none => rfl
  | some rest => dsimp only; split <;> rfl

theorem oneChar_erase (c : Ctx) (s : St) (p : Char → Bool) :
    RefTrace.oneChar c s p = (eraseR (Ref.oneChar c s p), []) := by
  unfold RefTrace.oneChar Ref.oneChar
  cases restAt c.input s.pos with
  | none => rfl
  | some rest =>
    cases rest with
    | nil => rfl
    | cons ch cs => dsimp only; split <;> rfl

/-- expressions without sub-expressions and rule references. -/
def isLeaf : Expr → Bool
  | .str _ | .insens _ | .range _ _ | .peekSlice _ _ | .skip _ | .pushLiteral _ => true
  | _ => false

theorem leaf_erase (c : Ctx) (m : Atomicity) (la : LA) (b : Bool) (e : Expr) (s : St) (f : Nat)
    (h : isLeaf e = true) :
    denoteT c (f + 1) m la e s = (eraseR (val c m b e s), []) := by
  rw [val_eq]
  cases e with
  | str x => rw [denoteT]; exact lit_erase c s _
  | insens x =>
    rw [denoteT]; simp only [denoteF]
    cases restAt c.input s.pos with
    | none => rfl
    | some rest =>
      dsimp only
      cases splitAt? rest (bLen x) with
      | none => rfl
      | some pq => obtain ⟨pre, post⟩ := pq; dsimp only; split <;> rfl
  | range a b => rw [denoteT]; exact oneChar_erase c s _
  | peekSlice a b =>
    simp only [denoteT, denoteF]
    have key : ∀ (x y : Option Nat),
        (match x, y with
          | some i, some j =>
            if j ≤ i then ((R.ok s, []) : T) else
            match matchStrs c.input (List.take (j - i) (List.drop i s.stack.reverse)) s.pos with
            | some p => (R.ok { s with pos := p }, [])
            | none => (R.fail, [])
          | _, _ => (R.fail, [])) =
        (eraseR (match x, y with
          | some i, some j =>
            if j ≤ i then Res.ok s [] else
            match matchStrs c.input (List.take (j - i) (List.drop i s.stack.reverse)) s.pos with
            | some p => Res.ok { s with pos := p } []
            | none => Res.fail
          | _, _ => Res.fail), []) := by
      intro x y
      cases x with
      | none => rfl
      | some i =>
        cases y with
        | none => rfl
        | some j =>
          dsimp only
          split
          · rfl
          · cases matchStrs c.input (List.take (j - i) (List.drop i s.stack.reverse)) s.pos <;> rfl
    exact key _ _
  | skip ss =>
    rw [denoteT]; simp only [denoteF]
    cases restAt c.input s.pos <;> rfl
  | pushLiteral x => rw [denoteT]; rfl
  | _ => simp [isLeaf] at h

/-- the built-in rules other than `EOI` make no calls. -/
theorem builtinT_erase (c : Ctx) (m : Atomicity) (la : LA) (b : Bool) (name : String) (s : St)
    (hn : name ≠ "EOI") :
    builtinT c m la name s = (eraseR (Ref.builtin c m b name s), []) := by
  unfold builtinT
  split
  · exact oneChar_erase c s _
  · show (if s.pos = 0 then ((R.ok s, []) : T) else (R.fail, [])) =
      (eraseR (if s.pos = 0 then Res.ok s [] else Res.fail), [])
    split <;> rfl
  · exact absurd rfl hn
  · show (match s.stack with | [] => ((R.stuck, []) : T) | top :: _ => RefTrace.lit c s top) =
      (eraseR (match s.stack with | [] => Res.stuck | top :: _ => Ref.lit c s top), [])
    cases s.stack with
    | nil => rfl
    | cons top rest => exact lit_erase c s top
  · show (match s.stack with
        | [] => ((R.stuck, []) : T)
        | top :: rest => match RefTrace.lit c s top with
          | (.ok s1, cs) => (.ok { s1 with stack := rest }, cs) | r => r) =
      (eraseR (match s.stack with
        | [] => Res.stuck
        | top :: rest => match Ref.lit c s top with
          | .ok s1 f => .ok { s1 with stack := rest } f | r => r), [])
    cases s.stack with
    | nil => rfl
    | cons top rest =>
      dsimp only
      rw [lit_erase]
      cases Ref.lit c s top <;> rfl
  · show (match matchStrs c.input s.stack s.pos with
        | some p => ((R.ok { s with pos := p }, []) : T) | none => (R.fail, [])) =
      (eraseR (match matchStrs c.input s.stack s.pos with
        | some p => Res.ok { s with pos := p } [] | none => Res.fail), [])
    cases matchStrs c.input s.stack s.pos <;> rfl
  · show (match matchStrs c.input s.stack s.pos with
        | some p => ((R.ok { pos := p, stack := [] }, []) : T) | none => (R.fail, [])) =
      (eraseR (match matchStrs c.input s.stack s.pos with
        | some p => Res.ok { pos := p, stack := [] } [] | none => Res.fail), [])
    cases matchStrs c.input s.stack s.pos <;> rfl
  · show (match s.stack with | [] => ((R.fail, []) : T) | _ :: rest => (R.ok { s with stack := rest }, [])) =
      (eraseR (match s.stack with | [] => Res.fail | _ :: rest => Res.ok { s with stack := rest } []), [])
    cases s.stack <;> rfl
  · exact oneChar_erase c s _
  · exact oneChar_erase c s _
  · exact oneChar_erase c s _
  · exact oneChar_erase c s _
  · exact oneChar_erase c s _
  · exact oneChar_erase c s _
  · exact oneChar_erase c s _
  · exact oneChar_erase c s _
  · exact oneChar_erase c s _
  · exact oneChar_erase c s _
  · show (match RefTrace.lit c s ['\n'] with
        | (.fail, _) => (match RefTrace.lit c s ['\r', '\n'] with
          | (.fail, _) => RefTrace.lit c s ['\r'] | r => r)
        | r => r) =
      (eraseR (match Ref.lit c s ['\n'] with
        | .fail => (match Ref.lit c s ['\r', '\n'] with | .fail => Ref.lit c s ['\r'] | r => r)
        | r => r), [])
    rw [lit_erase, lit_erase, lit_erase]
    cases Ref.lit c s ['\n'] <;> try rfl
    cases Ref.lit c s ['\r', '\n'] <;> rfl
  · rename_i h1 h2 h3 h4 h5 h6 h7 h8 h9 h10 h11 h12 h13 h14 h15 h16 h17 h18 h19
    have hb : Ref.builtin c m b name s =
        match c.uni name with
        | some cs => Ref.oneChar c s cs.mem
        | none => .stuck := by
      unfold Ref.builtin
      split <;> first | contradiction | rfl
    have hbT : builtinT c m la name s =
        match c.uni name with
        | some cs => RefTrace.oneChar c s cs.mem
        | none => (.stuck, []) := by
      unfold builtinT
      dsimp only
      split <;> first | contradiction | rfl
    show builtinT c m la name s = _
    rw [hb, hbT]
    cases c.uni name with
    | none => rfl
    | some cs => exact oneChar_erase c s _

/-- the lowered built-in rules other than `EOI` never touch the attempt bookkeeping. -/
theorem frame_builtin {env : Env} {memchr : Bool} (hsize : env.rules.length ≤ 333333333) (name : String)
    (hn : name ≠ "EOI") : Frame (mkCfg env memchr) (Lower.builtin env name) := by
  unfold Lower.builtin
  split
  · exact frame_skip 1
  · exact absurd rfl hn
  · exact frame_simple _ trivial
  · exact frame_stackPeek
  · exact frame_simple _ trivial
  · exact frame_stackPop
  · exact frame_simple _ trivial
  · exact frame_simple _ trivial
  · exact frame_matchRange _ _
  · exact frame_matchRange _ _
  · exact frame_matchRange _ _
  · exact frame_matchRange _ _
  · exact frame_orElse (frame_orElse (frame_matchRange _ _) (frame_matchRange _ _)) (frame_matchRange _ _)
  · exact frame_matchRange _ _
  · exact frame_matchRange _ _
  · exact frame_orElse (frame_matchRange _ _) (frame_matchRange _ _)
  · exact frame_orElse (frame_orElse (frame_matchRange _ _) (frame_matchRange _ _)) (frame_matchRange _ _)
  · exact frame_matchRange _ _
  · exact frame_orElse (frame_orElse (frame_matchString _) (frame_matchString _)) (frame_matchString _)
  · split
    · exact frame_matchCharBy _
    · exact frame_call_none (undefined_none hsize)

/-! ### the three loops -/

theorem isLoopT_rep (c : Ctx) (m : Atomicity) (la : LA) (e : Expr) :
    IsLoopT (seqT (EvK c m la) (EvD c m la e)) (EvL c m la e) where
  step := by
    intro s s1 cu acc r cs hu hl
    rcases hu with ⟨h, -⟩ | ⟨σ1, c1, c2, hk, he, rfl⟩
    · cases h
    · rw [← List.append_assoc] at hl
      exact EvL.step hk he hl
  stop := by
    intro s cu acc hu
    rcases hu with ⟨-, hk⟩ | ⟨σ1, c1, c2, hk, he, rfl⟩
    · exact EvL.stop_k hk
    · rw [← List.append_assoc]
      exact EvL.stop_e hk he

theorem isLoopT_star (c : Ctx) (la : LA) (name : String) :
    IsLoopT (EvCa c .nonAtomic la name) (EvSt c la name) where
  step := fun _ _ _ _ _ _ hu hl => EvSt.step hu hl
  stop := fun _ _ _ hu => EvSt.stop hu

theorem starT_ne_fail (c : Ctx) (la : LA) (name : String) :
    ∀ (f : Nat) (s : St) (acc : List Call), (starT c f la name s acc).1 ≠ .fail
  | 0, s, acc => by rw [starT]; exact fun h => nomatch h
  | f + 1, s, acc => by
    rw [starT]
    rcases h : callT c f .nonAtomic la name s with ⟨r, c1⟩
    cases r with
    | ok s1 => exact starT_ne_fail c la name f s1 _
    | fail => exact fun h => nomatch h
    | stuck => exact fun h => nomatch h
    | fuel => exact fun h => nomatch h

theorem EvSt.ne_fail {c : Ctx} {la : LA} {name : String} {s : St} {acc cs : List Call}
    (h : EvSt c la name s acc .fail cs) : False := by
  obtain ⟨F, hF⟩ := h
  have := starT_ne_fail c la name F s acc
  rw [hF F (Nat.le_refl _)] at this
  exact this rfl

theorem repLoopT_ne_fail (c : Ctx) (m : Atomicity) (la : LA) (e : Expr) :
    ∀ (f : Nat) (s : St) (acc : List Call), (repLoopT c f m la e s acc).1 ≠ .fail
  | 0, s, acc => by rw [repLoopT]; exact fun h => nomatch h
  | f + 1, s, acc => by
    rw [repLoopT]
    rcases h : skipT c f m la s with ⟨r, c1⟩
    cases r with
    | ok s1 =>
      dsimp only
      rcases h2 : denoteT c f m la e s1 with ⟨r2, c2⟩
      cases r2 with
      | ok s2 => exact repLoopT_ne_fail c m la e f s2 _
      | fail => exact fun h => nomatch h
      | stuck => exact fun h => nomatch h
      | fuel => exact fun h => nomatch h
    | fail => exact fun h => nomatch h
    | stuck => exact fun h => nomatch h
    | fuel => exact fun h => nomatch h

theorem EvL.ne_fail {c : Ctx} {m : Atomicity} {la : LA} {e : Expr} {s : St} {acc cs : List Call}
    (h : EvL c m la e s acc .fail cs) : False := by
  obtain ⟨F, hF⟩ := h
  have := repLoopT_ne_fail c m la e F s acc
  rw [hF F (Nat.le_refl _)] at this
  exact this rfl

theorem isLoopT_comment (c : Ctx) (la : LA) :
    IsLoopT (seqT (EvCa c .nonAtomic la "COMMENT") (loopT (EvSt c la "WHITESPACE"))) (EvCl c la) where
  step := by
    intro s s1 cu acc r cs hu hl
    rcases hu with ⟨h, -⟩ | ⟨σ1, c1, c2, hk, he, rfl⟩
    · cases h
    · rw [← List.append_assoc] at hl
      have := he []
      rw [List.nil_append] at this
      exact EvCl.step hk this hl
  stop := by
    intro s cu acc hu
    rcases hu with ⟨-, hk⟩ | ⟨σ1, c1, c2, hk, he, rfl⟩
    · exact EvCl.stop hk
    · exact (EvSt.ne_fail (he [])).elim

end PestModel.Track
