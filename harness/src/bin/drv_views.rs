//! C04: every view over a token tree (Pairs, Pair, FlatPairs, Tokens, single, renderers) vs
//! `pestmodel views`, and vs the tree itself (list-based oracle evaluated here).
use pest::iterators::{FlatPairs, Pair, Pairs, PairsBuilder, Tokens};
use pest::Token;
use std::collections::BTreeMap;
use verif_harness::prog::{intern, sexp_parse, SExp, R};
use verif_harness::*;

#[derive(Clone, Debug)]
struct Tree { rule: u16, a: usize, b: usize, tag: Option<String>, kids: Vec<Tree> }

fn show_tree(t: &Tree) -> String {
    let mut s = format!("(n {} {} {} {}", t.rule, t.a, t.b, t.tag.as_ref().map(|x| hexs(x)).unwrap_or("_".into()));
    for k in &t.kids { s.push(' '); s.push_str(&show_tree(k)); }
    s.push(')'); s
}
fn tree_of(e: &SExp) -> Option<Tree> {
    if let SExp::List(v) = e {
        let at = |i: usize| if let Some(SExp::Atom(a)) = v.get(i) { Some(a.as_str()) } else { None };
        if at(0)? != "n" { return None; }
        let tag = if at(4)? == "_" { None } else { Some(unhexs(at(4)?)?) };
        Some(Tree { rule: at(1)?.parse().ok()?, a: at(2)?.parse().ok()?, b: at(3)?.parse().ok()?, tag, kids: v[5..].iter().map(tree_of).collect::<Option<Vec<_>>>()? })
    } else { None }
}
fn add<'i>(b: PairsBuilder<'i, R>, t: &Tree) -> PairsBuilder<'i, R> {
    let b = if t.kids.is_empty() { b.rule(R(t.rule), t.a, t.b) } else { b.rule_with(R(t.rule), t.a, t.b, |mut inner| { for k in &t.kids { inner = add(inner, k); } inner }) };
    match &t.tag { Some(tag) => b.tag(intern(tag)), None => b }
}

const TAGS: [&str; 3] = ["t", "tag", "é"];
enum View<'i> { P(Pairs<'i, R>), F(FlatPairs<'i, R>), T(Tokens<'i, R>) }
fn summary(p: &Pair<'_, R>) -> String { let s = p.as_span(); format!("r{}@{}-{}", p.as_rule().0, s.start(), s.end()) }
fn show_tok(t: &Token<'_, R>) -> String { match t { Token::Start { rule, pos } => format!("S{}@{}", rule.0, pos.pos()), Token::End { rule, pos } => format!("E{}@{}", rule.0, pos.pos()) } }

fn step<'i>(cur: View<'i>, stack: &mut Vec<View<'i>>, op: &str) -> (String, View<'i>) {
    match (op, cur) {
        ("n", View::P(mut v)) => { let r = v.next(); (r.as_ref().map(summary).unwrap_or("_".into()), View::P(v)) }
        ("b", View::P(mut v)) => { let r = v.next_back(); (r.as_ref().map(summary).unwrap_or("_".into()), View::P(v)) }
        ("l", View::P(v)) => { let n = v.len(); let h = v.size_hint(); (if h == (n, Some(n)) { n.to_string() } else { format!("{}!hint{:?}", n, h) }, View::P(v)) }
        ("p", View::P(v)) => (v.peek().as_ref().map(summary).unwrap_or("_".into()), View::P(v)),
        ("s", View::P(v)) => (hexs(v.as_str()), View::P(v)),
        ("c", View::P(v)) => (hexs(&v.concat()), View::P(v)),
        ("e", View::P(v)) => ((v.is_empty() as u8).to_string(), View::P(v)),
        ("i", View::P(mut v)) => match v.next() { Some(p) => { let s = summary(&p); stack.push(View::P(v)); (s, View::P(p.into_inner())) } None => ("_".into(), View::P(v)) },
        ("I", View::P(mut v)) => match v.next_back() { Some(p) => { let s = summary(&p); stack.push(View::P(v)); (s, View::P(p.into_inner())) } None => ("_".into(), View::P(v)) },
        ("g", View::P(mut v)) => match v.next() { Some(p) => { let s = summary(&p); stack.push(View::P(v)); (s, View::P(Pairs::single(p))) } None => ("_".into(), View::P(v)) },
        ("x", View::P(mut v)) => match v.next() { Some(p) => { let lc = p.line_col(); (format!("{}:tag={}:lc={},{}:str={}:alt={}", summary(&p), p.as_node_tag().map(hexs).unwrap_or("_".into()), lc.0, lc.1, hexs(p.as_str()), hexs(&format!("{:#}", p))), View::P(v)) } None => ("_".into(), View::P(v)) },
        ("T", View::P(mut v)) => match v.next() { Some(p) => { let s = summary(&p); stack.push(View::P(v)); (s, View::T(p.tokens())) } None => ("_".into(), View::P(v)) },
        (o, View::P(v)) if o.len() == 2 && (o.starts_with('F') || o.starts_with('W')) && "012".contains(&o[1..]) => {
            let tag = TAGS[o[1..].parse::<usize>().unwrap()];
            if o.starts_with('F') { (v.find_first_tagged(tag).as_ref().map(summary).unwrap_or("_".into()), View::P(v)) }
            else { (format!("[{}]", v.clone().find_tagged(tag).map(|p| summary(&p)).collect::<Vec<_>>().join(",")), View::P(v)) } }
        ("f", View::P(v)) => { let f = v.clone().flatten(); stack.push(View::P(v)); ("f".into(), View::F(f)) }
        ("t", View::P(v)) => { let t = v.clone().tokens(); stack.push(View::P(v)); ("t".into(), View::T(t)) }
        ("t", View::F(v)) => { let t = v.clone().tokens(); stack.push(View::F(v)); ("t".into(), View::T(t)) }
        ("D", View::P(v)) => (hexs(&format!("{}", v)), View::P(v)),
        ("A", View::P(v)) => (hexs(&format!("{:#}", v)), View::P(v)),
        ("G", View::P(v)) => (hexs(&format!("{:?}", v)), View::P(v)),
        #[cfg(feature = "pretty")]
        ("J", View::P(v)) => (hexs(&v.to_json()), View::P(v)),
        ("n", View::F(mut v)) => { let r = v.next(); (r.as_ref().map(summary).unwrap_or("_".into()), View::F(v)) }
        ("b", View::F(mut v)) => { let r = v.next_back(); (r.as_ref().map(summary).unwrap_or("_".into()), View::F(v)) }
        // a clone of the (possibly partly walked) flat view: its len, size hint and what it yields
        ("k", View::F(v)) => { let c = v.clone(); let n = c.len(); let h = c.size_hint(); let items: Vec<String> = c.map(|p| summary(&p)).collect();
            (format!("{}{}:[{}]", n, if h == (n, Some(n)) { String::new() } else { format!("!hint{:?}", h) }, items.join(",")), View::F(v)) }
        ("l", View::F(v)) => { let n = v.len(); let h = v.size_hint(); (if h == (n, Some(n)) { n.to_string() } else { format!("{}!hint{:?}", n, h) }, View::F(v)) }
        ("n", View::T(mut v)) => { let r = v.next(); (r.as_ref().map(show_tok).unwrap_or("_".into()), View::T(v)) }
        ("b", View::T(mut v)) => { let r = v.next_back(); (r.as_ref().map(show_tok).unwrap_or("_".into()), View::T(v)) }
        ("l", View::T(v)) => { let n = v.len(); (n.to_string(), View::T(v)) }
        ("u", cur) => match stack.pop() { Some(v) => ("u".into(), v), None => ("-".into(), cur) },
        (_, cur) => ("-".into(), cur),
    }
}

// ---------------------------------------------------------------- oracle: the tree itself
#[derive(Clone)]
enum Spec { P(Vec<Tree>), F(Vec<Tree>), T(Vec<(bool, u16, usize)>) }
fn preorder(ts: &[Tree], out: &mut Vec<Tree>) { for t in ts { out.push(t.clone()); preorder(&t.kids, out); } }
fn toks(ts: &[Tree], out: &mut Vec<(bool, u16, usize)>) { for t in ts { out.push((true, t.rule, t.a)); toks(&t.kids, out); out.push((false, t.rule, t.b)); } }
fn t_summary(t: &Tree) -> String { format!("r{}@{}-{}", t.rule, t.a, t.b) }
fn alt(t: &Tree) -> String { if t.kids.is_empty() { format!("{}({}, {})", t.rule, t.a, t.b) } else { format!("{}({}, {}, [{}])", t.rule, t.a, t.b, t.kids.iter().map(alt).collect::<Vec<_>>().join(", ")) } }
fn dbg(t: &Tree, input: &str) -> String {
    format!("Pair {{ rule: {}, {}span: Span {{ str: {:?}, range: {}..{} }}, inner: [{}] }}", t.rule, t.tag.as_ref().map(|x| format!("node_tag: {:?}, ", x)).unwrap_or_default(), &input[t.a..t.b], t.a, t.b, t.kids.iter().map(|k| dbg(k, input)).collect::<Vec<_>>().join(", "))
}
fn spec_lc(s: &str, off: usize) -> (usize, usize) { let pre = &s[..off]; (1 + pre.matches('\n').count(), 1 + pre.chars().rev().take_while(|&c| c != '\n').count()) }
fn spec_step(cur: Spec, stack: &mut Vec<Spec>, op: &str, input: &str) -> (Option<String>, Spec) {
    let tk = |t: &(bool, u16, usize)| format!("{}{}@{}", if t.0 { "S" } else { "E" }, t.1, t.2);
    match (op, cur) {
        ("n", Spec::P(mut v)) => if v.is_empty() { (Some("_".into()), Spec::P(v)) } else { let t = v.remove(0); (Some(t_summary(&t)), Spec::P(v)) },
        ("b", Spec::P(mut v)) => match v.pop() { Some(t) => (Some(t_summary(&t)), Spec::P(v)), None => (Some("_".into()), Spec::P(v)) },
        ("l", Spec::P(v)) => (Some(v.len().to_string()), Spec::P(v)),
        ("p", Spec::P(v)) => (Some(v.first().map(t_summary).unwrap_or("_".into())), Spec::P(v)),
        ("s", Spec::P(v)) => (Some(if v.is_empty() { "-".into() } else { hexs(&input[v[0].a..v[v.len() - 1].b]) }), Spec::P(v)),
        ("c", Spec::P(v)) => (Some(hexs(&v.iter().map(|t| &input[t.a..t.b]).collect::<String>())), Spec::P(v)),
        ("e", Spec::P(v)) => (Some((v.is_empty() as u8).to_string()), Spec::P(v)),
        ("i", Spec::P(mut v)) => if v.is_empty() { (Some("_".into()), Spec::P(v)) } else { let t = v.remove(0); stack.push(Spec::P(v)); (Some(t_summary(&t)), Spec::P(t.kids.clone())) },
        ("I", Spec::P(mut v)) => match v.pop() { Some(t) => { stack.push(Spec::P(v)); (Some(t_summary(&t)), Spec::P(t.kids.clone())) } None => (Some("_".into()), Spec::P(v)) },
        ("g", Spec::P(mut v)) => if v.is_empty() { (Some("_".into()), Spec::P(v)) } else { let t = v.remove(0); stack.push(Spec::P(v)); (Some(t_summary(&t)), Spec::P(vec![t])) },
        ("x", Spec::P(mut v)) => if v.is_empty() { (Some("_".into()), Spec::P(v)) } else { let t = v.remove(0); let lc = spec_lc(input, t.a);
            (Some(format!("{}:tag={}:lc={},{}:str={}:alt={}", t_summary(&t), t.tag.as_ref().map(|x| hexs(x)).unwrap_or("_".into()), lc.0, lc.1, hexs(&input[t.a..t.b]), hexs(&alt(&t)))), Spec::P(v)) },
        ("T", Spec::P(mut v)) => if v.is_empty() { (Some("_".into()), Spec::P(v)) } else { let t = v.remove(0); stack.push(Spec::P(v)); let mut o = vec![]; toks(std::slice::from_ref(&t), &mut o); (Some(t_summary(&t)), Spec::T(o)) },
        (o, Spec::P(v)) if o.len() == 2 && (o.starts_with('F') || o.starts_with('W')) && "012".contains(&o[1..]) => {
            // the pairs carrying the tag, in the order of flatten() (pre-order): the first of them / all of them
            let tag = TAGS[o[1..].parse::<usize>().unwrap()];
            let mut all = vec![]; preorder(&v, &mut all);
            let hits: Vec<String> = all.iter().filter(|t| t.tag.as_deref() == Some(tag)).map(t_summary).collect();
            (Some(if o.starts_with('F') { hits.first().cloned().unwrap_or("_".into()) } else { format!("[{}]", hits.join(",")) }), Spec::P(v)) }
        ("f", Spec::P(v)) => { let mut o = vec![]; preorder(&v, &mut o); stack.push(Spec::P(v)); (Some("f".into()), Spec::F(o)) }
        ("t", Spec::P(v)) => { let mut o = vec![]; toks(&v, &mut o); stack.push(Spec::P(v)); (Some("t".into()), Spec::T(o)) }
        ("t", Spec::F(v)) => { stack.push(Spec::F(v)); (None, Spec::T(vec![])) } // tokens of a partially walked flat view: window semantics, not specified by the tree
        ("D", Spec::P(v)) => (Some(hexs(&format!("[{}]", v.iter().map(|t| input[t.a..t.b].to_string()).collect::<Vec<_>>().join(", ")))), Spec::P(v)),
        ("A", Spec::P(v)) => (Some(hexs(&format!("[{}]", v.iter().map(alt).collect::<Vec<_>>().join(", ")))), Spec::P(v)),
        ("G", Spec::P(v)) => (Some(hexs(&format!("[{}]", v.iter().map(|t| dbg(t, input)).collect::<Vec<_>>().join(", ")))), Spec::P(v)),
        ("J", Spec::P(v)) => (None, Spec::P(v)), // checked structurally below
        ("n", Spec::F(mut v)) => if v.is_empty() { (Some("_".into()), Spec::F(v)) } else { let t = v.remove(0); (Some(t_summary(&t)), Spec::F(v)) },
        ("b", Spec::F(mut v)) => match v.pop() { Some(t) => (Some(t_summary(&t)), Spec::F(v)), None => (Some("_".into()), Spec::F(v)) },
        ("k", Spec::F(v)) => (Some(format!("{}:[{}]", v.len(), v.iter().map(t_summary).collect::<Vec<_>>().join(","))), Spec::F(v)),
        ("l", Spec::F(v)) => (Some(v.len().to_string()), Spec::F(v)),
        ("n", Spec::T(mut v)) => if v.is_empty() { (None, Spec::T(v)) } else { let t = v.remove(0); (Some(tk(&t)), Spec::T(v)) },
        ("b", Spec::T(mut v)) => match v.pop() { Some(t) => (Some(tk(&t)), Spec::T(v)), None => (None, Spec::T(v)) },
        ("l", Spec::T(v)) => (None, Spec::T(v)),
        ("u", cur) => match stack.pop() { Some(v) => (Some("u".into()), v), None => (Some("-".into()), cur) },
        (_, cur) => (Some("-".into()), cur),
    }
}
/// JSON oracle: parse the output with serde_json and compare with the tree.
#[cfg(feature = "pretty")]
fn json_ok(out_hex: &str, v: &[Tree], input: &str) -> bool {
    fn pair(t: &Tree, input: &str) -> serde_json::Value {
        serde_json::json!({"pos": [t.a, t.b], "rule": t.rule.to_string(), "inner": if t.kids.is_empty() { serde_json::Value::String(input[t.a..t.b].to_string()) } else { pairs(&t.kids, input) }})
    }
    fn pairs(v: &[Tree], input: &str) -> serde_json::Value {
        let pos = if v.is_empty() { (0, 0) } else { (v[0].a, v[v.len() - 1].b) };
        serde_json::json!({"pos": [pos.0, pos.1], "pairs": v.iter().map(|t| pair(t, input)).collect::<Vec<_>>()})
    }
    match unhexs(out_hex).and_then(|s| serde_json::from_str::<serde_json::Value>(&s).ok()) { Some(j) => j == pairs(v, input), None => false }
}

fn eval_line(l: &str, stats: &mut BTreeMap<String, u64>) -> (String, String) {
    let mut it = l.splitn(3, ' ');
    if it.next() != Some("W") { return ("bad-op".into(), "ok".into()); }
    let input = match it.next().and_then(unhexs) { Some(s) => s, None => return ("bad-op".into(), "ok".into()) };
    let top = match it.next().and_then(sexp_parse) { Some(t) if !t.is_empty() => t, _ => return ("bad-op".into(), "ok".into()) };
    let forest: Vec<Tree> = match &top[0] { SExp::List(v) => match v.iter().map(tree_of).collect::<Option<Vec<_>>>() { Some(f) => f, None => return ("bad-op".into(), "ok".into()) }, _ => return ("bad-op".into(), "ok".into()) };
    let ops: Vec<String> = top[1..].iter().filter_map(|e| if let SExp::Atom(a) = e { Some(a.clone()) } else { None }).collect();
    let input_ref: &str = &input;
    let mut outs: Vec<String> = vec![];
    let mut verdict = "ok".to_string();
    let r = catch(|| {
        let mut b = PairsBuilder::new(input_ref);
        for t in &forest { b = add(b, t); }
        let mut cur = View::P(b.build());
        let mut stack: Vec<View> = vec![];
        let mut scur = Spec::P(forest.clone());
        let mut sstack: Vec<Spec> = vec![];
        let mut res: Vec<(String, Option<String>)> = vec![];
        for op in &ops {
            let got = catch(|| step(std::mem::replace(&mut cur, View::T(PairsBuilder::<R>::new(input_ref).build().tokens())), &mut stack, op));
            match got {
                Ok((o, v)) => {
                    cur = v;
                    #[allow(unused_mut)]
                    let mut jsonfail = false;
                    #[cfg(feature = "pretty")]
                    if op == "J" { if let Spec::P(v) = &scur { if o != "-" && !json_ok(&o, v, input_ref) { jsonfail = true; } } }
                    let (want, s2) = spec_step(std::mem::replace(&mut scur, Spec::T(vec![])), &mut sstack, op, input_ref);
                    scur = s2;
                    res.push((o, if jsonfail { Some("<json of the tree>".into()) } else { want }));
                }
                Err(_) => { res.push(("panic".into(), Some("<no panic>".into()))); break; }
            }
        }
        res
    });
    match r {
        Ok(res) => {
            for (i, (o, want)) in res.iter().enumerate() {
                *stats.entry(format!("op_{}", ops[i])).or_default() += 1;
                if let Some(w) = want { if (w != o || w == "<json of the tree>") && verdict == "ok" && !(ops[i] == "J" && o == "-") { verdict = format!("FAIL op#{} `{}`: implementation {} but the tree says {}", i, ops[i], if o.len() > 80 { &o[..80] } else { o }, if w.len() > 80 { &w[..80] } else { w }); } }
                outs.push(o.clone());
            }
        }
        Err(_) => { outs.push("panic".into()); verdict = "FAIL PairsBuilder panicked on a well-formed tree".into(); }
    }
    (outs.join(" "), verdict)
}

fn gen_forest(rng: &mut Rng, bounds: &[usize], lo: usize, hi: usize, depth: usize, count: &mut usize) -> Vec<Tree> {
    // children: ordered, non-overlapping sub-ranges of bounds[lo..=hi]
    let mut v = vec![]; let mut cur = lo;
    let k = if depth == 0 { 0 } else { rng.below(4) as usize };
    for _ in 0..k {
        if *count >= 14 { break; }
        let a = rng.range(cur, hi); let b = rng.range(a, hi);
        *count += 1;
        let kids = gen_forest(rng, bounds, a, b, depth - 1, count);
        v.push(Tree { rule: rng.below(5) as u16 + 1, a: bounds[a], b: bounds[b], tag: if rng.chance(1, 3) { Some(rng.pick(&["t", "t", "t", "tag", "é"]).to_string()) } else { None }, kids });
        cur = b;
    }
    v
}

fn main() {
    quiet_panics();
    let mut out = Out::new();
    let mut stats: BTreeMap<String, u64> = BTreeMap::new();
    match cli() {
        Cmd::Run { ops, out: dir } => { for l in &ops { let (i, v) = eval_line(l, &mut stats); out.push(l.clone(), i, v); } out.write(&dir, "{}"); }
        Cmd::Gen { thorough, seed, out: dir } => {
            let n = if thorough { 150000 } else { 25000 };
            let maxops = if thorough { 40 } else { 12 };
            let mut rng = Rng::new(seed);
            let mut distinct = std::collections::HashSet::new();
            let (mut nested, mut empty_forest) = (0u64, 0u64);
            let json = cfg!(feature = "pretty");
            for _ in 0..n {
                let nchars = rng.range(0, 8);
                let mut input = String::new();
                for _ in 0..nchars { input.push_str(*rng.pick(&["a", "b", "c", "\n", "é", "嗨", "\"", "\\", "\t"][..])); }
                let bounds: Vec<usize> = (0..=input.len()).filter(|i| input.is_char_boundary(*i)).collect();
                let mut count = 0;
                let dmax = rng.range(1, 4);
                let forest = if rng.chance(1, 25) { vec![] } else { gen_forest(&mut rng, &bounds, 0, bounds.len() - 1, dmax, &mut count) };
                if forest.is_empty() { empty_forest += 1; }
                if forest.iter().any(|t| t.kids.iter().any(|k| !k.kids.is_empty())) { nested += 1; }
                let nops = rng.range(1, maxops);
                let mut ops = vec![];
                let pool: &[&str] = if json { &["n", "b", "n", "b", "l", "l", "p", "s", "c", "e", "i", "I", "u", "g", "x", "T", "f", "t", "D", "A", "G", "J", "F0", "F0", "F1", "F2", "W0", "W1", "W2", "k", "k"] } else { &["n", "b", "n", "b", "l", "l", "p", "s", "c", "e", "i", "I", "u", "g", "x", "T", "f", "t", "D", "A", "G", "F0", "F0", "F1", "F2", "W0", "W1", "W2", "k", "k"] };
                for _ in 0..nops { ops.push(rng.pick(pool).to_string()); }
                let l = format!("W {} ({}) {}", hexs(&input), forest.iter().map(show_tree).collect::<Vec<_>>().join(" "), ops.join(" "));
                let (i, v) = eval_line(&l, &mut stats);
                if count >= 3 && nops >= 4 { distinct.insert(l.clone()); }
                out.push(l, i, v);
            }
            let samples: Vec<String> = out.ops.iter().step_by((out.ops.len() / 5).max(1)).take(5).cloned().collect();
            let stats_s = format!("{{\"evaluations\":{},\"distinct_nontrivial\":{},\"forests_with_depth_ge_3\":{},\"empty_forests\":{},\"max_ops\":{},\"json\":{},\"observed\":{:?},\"samples\":{:?}}}", out.ops.len(), distinct.len(), nested, empty_forest, maxops, json, stats, samples);
            out.write(&dir, &stats_s);
        }
    }
}
