"""Generic flow shared by properties whose tie is a single-driver correspondence."""
import glob, json, os
from runner import *


def run_corpus_and_gen(ctx, drv_bin, mode, runs):
    """runs: list of (name, drv_args). Corpus first. Returns list of Corr."""
    out = []
    corpus = sorted(glob.glob(os.path.join(VERIF, "corpus", ctx.prop, "*.case")))
    if corpus:
        allf = os.path.join(ctx.rundir, "corpus_all.txt")
        with open(allf, "w") as f:
            for p in corpus:
                for l in open(p):
                    l = l.rstrip("\n")
                    if l.strip() and not l.startswith("#"):
                        f.write(l + "\n")
        out.append(correspond("corpus", drv_bin, ["run", allf], mode, os.path.join(ctx.rundir, "corpus")))
    for name, args in runs:
        out.append(correspond(name, drv_bin, args, mode, os.path.join(ctx.rundir, name)))
    return out


def replay_generic(ctx, path, drv_name, mode, featureset="default"):
    """Replay a case line stored in a replay file on the current tree."""
    r = json.load(open(path))
    ok, out, bindir, _ = cargo_build(featureset, [drv_name])
    lake_build(["pestmodel"])
    if not ok:
        log(out[-2000:]); return 2
    case = r.get("case")
    if not case:
        log("replay file has no `case` (proof-obligation failure): " + json.dumps(r.get("obligation", r))[:2000])
        return 1
    res = eval_lines(os.path.join(bindir, drv_name), mode, [case], os.path.join(ctx.rundir, "replay"))
    if res is None:
        log("replay: driver failed"); return 2
    imp, mod, orc = res[0]
    log(f"case   : {case}\nimpl   : {imp}\nmodel  : {mod}\noracle : {orc}")
    bad = (orc != "ok") or (imp != mod)
    log("replay: " + ("FAILS (property violated or correspondence broken on this case)" if bad else "passes"))
    return 1 if bad else 0
