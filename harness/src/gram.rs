//! Abstract grammars (`pest_meta::ast`), their S-expression form for the protocol, the shared
//! random grammar generator, inputs, and printing to pest's concrete syntax.
use crate::prog::{sexp_parse, SExp};
use crate::{hexs, unhexs, Rng};
use pest_meta::ast::{Expr, Rule, RuleType};
use pest_meta::optimizer::{OptimizedExpr, OptimizedRule};

pub fn ty_s(t: RuleType) -> &'static str {
    match t { RuleType::Normal => "n", RuleType::Silent => "s", RuleType::Atomic => "a", RuleType::CompoundAtomic => "c", RuleType::NonAtomic => "x" }
}
fn ty_of(s: &str) -> Option<RuleType> {
    Some(match s { "n" => RuleType::Normal, "s" => RuleType::Silent, "a" => RuleType::Atomic, "c" => RuleType::CompoundAtomic, "x" => RuleType::NonAtomic, _ => return None })
}
fn oi(x: &Option<i32>) -> String { x.map(|v| v.to_string()).unwrap_or("_".into()) }
fn ch(s: &str) -> u32 { s.chars().next().unwrap_or('\0') as u32 }

pub fn show_expr(e: &Expr) -> String {
    use Expr::*;
    match e {
        Str(s) => format!("(str {})", hexs(s)), Insens(s) => format!("(ins {})", hexs(s)), Range(a, b) => format!("(rng {} {})", ch(a), ch(b)),
        Ident(n) => format!("(id {})", n), PeekSlice(a, b) => format!("(peek {} {})", a, oi(b)),
        PosPred(e) => format!("(pos {})", show_expr(e)), NegPred(e) => format!("(neg {})", show_expr(e)),
        Seq(a, b) => format!("(seq {} {})", show_expr(a), show_expr(b)), Choice(a, b) => format!("(alt {} {})", show_expr(a), show_expr(b)),
        Opt(e) => format!("(opt {})", show_expr(e)), Rep(e) => format!("(rep {})", show_expr(e)), RepOnce(e) => format!("(rep1 {})", show_expr(e)),
        RepExact(e, n) => format!("(repx {} {})", show_expr(e), n), RepMin(e, n) => format!("(repmin {} {})", show_expr(e), n),
        RepMax(e, n) => format!("(repmax {} {})", show_expr(e), n), RepMinMax(e, m, n) => format!("(repmm {} {} {})", show_expr(e), m, n),
        Skip(ss) => format!("(skip{})", ss.iter().map(|s| format!(" {}", hexs(s))).collect::<String>()),
        Push(e) => format!("(push {})", show_expr(e)),
        #[cfg(feature = "extras")]
        PushLiteral(s) => format!("(pushlit {})", hexs(s)),
        #[cfg(feature = "extras")]
        NodeTag(e, t) => format!("(tag {} {})", show_expr(e), hexs(t)),
    }
}
pub fn show_oexpr(e: &OptimizedExpr) -> String {
    use OptimizedExpr::*;
    match e {
        Str(s) => format!("(str {})", hexs(s)), Insens(s) => format!("(ins {})", hexs(s)), Range(a, b) => format!("(rng {} {})", ch(a), ch(b)),
        Ident(n) => format!("(id {})", n), PeekSlice(a, b) => format!("(peek {} {})", a, oi(b)),
        PosPred(e) => format!("(pos {})", show_oexpr(e)), NegPred(e) => format!("(neg {})", show_oexpr(e)),
        Seq(a, b) => format!("(seq {} {})", show_oexpr(a), show_oexpr(b)), Choice(a, b) => format!("(alt {} {})", show_oexpr(a), show_oexpr(b)),
        Opt(e) => format!("(opt {})", show_oexpr(e)), Rep(e) => format!("(rep {})", show_oexpr(e)),
        #[cfg(feature = "extras")]
        RepOnce(e) => format!("(rep1 {})", show_oexpr(e)),
        Skip(ss) => format!("(skip{})", ss.iter().map(|s| format!(" {}", hexs(s))).collect::<String>()),
        Push(e) => format!("(push {})", show_oexpr(e)),
        #[cfg(feature = "extras")]
        PushLiteral(s) => format!("(pushlit {})", hexs(s)),
        #[cfg(feature = "extras")]
        NodeTag(e, t) => format!("(tag {} {})", show_oexpr(e), hexs(t)),
        RestoreOnErr(e) => format!("(roe {})", show_oexpr(e)),
    }
}
pub fn show_rules(rs: &[Rule]) -> String { format!("({})", rs.iter().map(|r| format!("(rule {} {} {})", r.name, ty_s(r.ty), show_expr(&r.expr))).collect::<Vec<_>>().join(" ")) }
pub fn show_orules(rs: &[OptimizedRule]) -> String { format!("({})", rs.iter().map(|r| format!("(rule {} {} {})", r.name, ty_s(r.ty), show_oexpr(&r.expr))).collect::<Vec<_>>().join(" ")) }

fn atom(e: &SExp) -> Option<&str> { if let SExp::Atom(a) = e { Some(a) } else { None } }
fn chs(e: &SExp) -> Option<String> { Some(char::from_u32(atom(e)?.parse().ok()?)?.to_string()) }
fn oint(e: &SExp) -> Option<Option<i32>> { let a = atom(e)?; if a == "_" { Some(None) } else { Some(Some(a.parse().ok()?)) } }
pub fn expr_of(e: &SExp) -> Option<Expr> {
    use Expr::*;
    let v = if let SExp::List(v) = e { v } else { return None };
    let b = |i: usize| expr_of(v.get(i)?).map(Box::new);
    Some(match (atom(v.get(0)?)?, v.len()) {
        ("str", 2) => Str(unhexs(atom(&v[1])?)?), ("ins", 2) => Insens(unhexs(atom(&v[1])?)?), ("rng", 3) => Range(chs(&v[1])?, chs(&v[2])?),
        ("id", 2) => Ident(atom(&v[1])?.to_string()), ("peek", 3) => PeekSlice(atom(&v[1])?.parse().ok()?, oint(&v[2])?),
        ("pos", 2) => PosPred(b(1)?), ("neg", 2) => NegPred(b(1)?), ("seq", 3) => Seq(b(1)?, b(2)?), ("alt", 3) => Choice(b(1)?, b(2)?),
        ("opt", 2) => Opt(b(1)?), ("rep", 2) => Rep(b(1)?), ("rep1", 2) => RepOnce(b(1)?),
        ("repx", 3) => RepExact(b(1)?, atom(&v[2])?.parse().ok()?), ("repmin", 3) => RepMin(b(1)?, atom(&v[2])?.parse().ok()?),
        ("repmax", 3) => RepMax(b(1)?, atom(&v[2])?.parse().ok()?), ("repmm", 4) => RepMinMax(b(1)?, atom(&v[2])?.parse().ok()?, atom(&v[3])?.parse().ok()?),
        ("skip", _) => Skip(v[1..].iter().map(|x| unhexs(atom(x)?)).collect::<Option<Vec<_>>>()?),
        ("push", 2) => Push(b(1)?),
        #[cfg(feature = "extras")]
        ("pushlit", 2) => PushLiteral(unhexs(atom(&v[1])?)?),
        #[cfg(feature = "extras")]
        ("tag", 3) => NodeTag(b(1)?, unhexs(atom(&v[2])?)?),
        _ => return None,
    })
}
pub fn oexpr_of(e: &SExp) -> Option<OptimizedExpr> {
    use OptimizedExpr::*;
    let v = if let SExp::List(v) = e { v } else { return None };
    let b = |i: usize| oexpr_of(v.get(i)?).map(Box::new);
    Some(match (atom(v.get(0)?)?, v.len()) {
        ("str", 2) => Str(unhexs(atom(&v[1])?)?), ("ins", 2) => Insens(unhexs(atom(&v[1])?)?), ("rng", 3) => Range(chs(&v[1])?, chs(&v[2])?),
        ("id", 2) => Ident(atom(&v[1])?.to_string()), ("peek", 3) => PeekSlice(atom(&v[1])?.parse().ok()?, oint(&v[2])?),
        ("pos", 2) => PosPred(b(1)?), ("neg", 2) => NegPred(b(1)?), ("seq", 3) => Seq(b(1)?, b(2)?), ("alt", 3) => Choice(b(1)?, b(2)?),
        ("opt", 2) => Opt(b(1)?), ("rep", 2) => Rep(b(1)?),
        #[cfg(feature = "extras")]
        ("rep1", 2) => RepOnce(b(1)?),
        ("skip", _) => Skip(v[1..].iter().map(|x| unhexs(atom(x)?)).collect::<Option<Vec<_>>>()?),
        ("push", 2) => Push(b(1)?),
        #[cfg(feature = "extras")]
        ("pushlit", 2) => PushLiteral(unhexs(atom(&v[1])?)?),
        #[cfg(feature = "extras")]
        ("tag", 3) => NodeTag(b(1)?, unhexs(atom(&v[2])?)?),
        ("roe", 2) => RestoreOnErr(b(1)?),
        _ => return None,
    })
}
pub fn rules_of(e: &SExp) -> Option<Vec<Rule>> {
    let v = if let SExp::List(v) = e { v } else { return None };
    v.iter().map(|r| { let r = if let SExp::List(r) = r { r } else { return None }; if r.len() != 4 || atom(&r[0])? != "rule" { return None; }
        Some(Rule { name: atom(&r[1])?.to_string(), ty: ty_of(atom(&r[2])?)?, expr: expr_of(&r[3])? }) }).collect()
}
pub fn orules_of(e: &SExp) -> Option<Vec<OptimizedRule>> {
    let v = if let SExp::List(v) = e { v } else { return None };
    v.iter().map(|r| { let r = if let SExp::List(r) = r { r } else { return None }; if r.len() != 4 || atom(&r[0])? != "rule" { return None; }
        Some(OptimizedRule { name: atom(&r[1])?.to_string(), ty: ty_of(atom(&r[2])?)?, expr: oexpr_of(&r[3])? }) }).collect()
}
pub fn parse_sexps(s: &str) -> Option<Vec<SExp>> { sexp_parse(s) }

// ------------------------------------------------------------------ printing to pest syntax
fn esc(s: &str) -> String {
    let mut o = String::new();
    for c in s.chars() { match c { '"' => o.push_str("\\\""), '\\' => o.push_str("\\\\"), '\n' => o.push_str("\\n"), '\r' => o.push_str("\\r"), '\t' => o.push_str("\\t"), '\0' => o.push_str("\\0"), c => o.push(c) } }
    o
}
fn esc_ch(s: &str) -> String { let c = s.chars().next().unwrap_or('a'); match c { '\'' => "\\'".into(), '\\' => "\\\\".into(), '\n' => "\\n".into(), '\r' => "\\r".into(), '\t' => "\\t".into(), c => c.to_string() } }
/// Fully parenthesised canonical spelling (every binary / prefix / postfix operand in parentheses).
pub fn print_expr(e: &Expr) -> String {
    use Expr::*;
    let p = |e: &Expr| format!("({})", print_expr(e));
    match e {
        Str(s) => format!("\"{}\"", esc(s)), Insens(s) => format!("^\"{}\"", esc(s)), Range(a, b) => format!("'{}'..'{}'", esc_ch(a), esc_ch(b)),
        Ident(n) => n.clone(), PeekSlice(a, b) => format!("PEEK[{}..{}]", a, b.map(|x| x.to_string()).unwrap_or_default()),
        PosPred(e) => format!("&{}", p(e)), NegPred(e) => format!("!{}", p(e)), Seq(a, b) => format!("{} ~ {}", p(a), p(b)), Choice(a, b) => format!("{} | {}", p(a), p(b)),
        Opt(e) => format!("{}?", p(e)), Rep(e) => format!("{}*", p(e)), RepOnce(e) => format!("{}+", p(e)),
        RepExact(e, n) => format!("{}{{{}}}", p(e), n), RepMin(e, n) => format!("{}{{{},}}", p(e), n), RepMax(e, n) => format!("{}{{,{}}}", p(e), n), RepMinMax(e, m, n) => format!("{}{{{},{}}}", p(e), m, n),
        Skip(ss) => format!("(!({}) ~ ANY)*", ss.iter().map(|s| format!("\"{}\"", esc(s))).collect::<Vec<_>>().join(" | ")),
        Push(e) => format!("PUSH({})", print_expr(e)),
        #[cfg(feature = "extras")]
        PushLiteral(s) => format!("PUSH_LITERAL(\"{}\")", esc(s)),
        #[cfg(feature = "extras")]
        NodeTag(e, t) => format!("#{} = {}", t, p(e)),
    }
}
pub fn print_grammar(rs: &[Rule]) -> String {
    rs.iter().map(|r| format!("{} = {}{{ {} }}\n", r.name, match r.ty { RuleType::Normal => "", RuleType::Silent => "_", RuleType::Atomic => "@", RuleType::CompoundAtomic => "$", RuleType::NonAtomic => "!" }, print_expr(&r.expr))).collect()
}

// ------------------------------------------------------------------ generator
pub struct GenCfg { pub extras: bool, pub guarded: bool, pub stack_ops: bool, pub tags: bool, pub max_rules: usize, pub max_depth: usize, pub builtin_names: bool, pub tag_shapes: bool }
pub struct GGen<'a> { pub rng: &'a mut Rng, pub cfg: &'a GenCfg, names: Vec<String>, cur: usize, has_atomic: bool }
const LITS: &[&str] = &["a", "b", "ab", "c", "é", "ba"];
fn bx(e: Expr) -> Box<Expr> { Box::new(e) }
impl<'a> GGen<'a> {
    fn lit(&mut self) -> String { self.rng.pick(LITS).to_string() }
    fn consuming(&mut self) -> Expr {
        match self.rng.below(12) {
            0..=4 => Expr::Str(self.lit()),
            5 => Expr::Insens(self.rng.pick(&["A", "aB", "b"]).to_string()),
            6 => { let (a, b) = *self.rng.pick(&[("a", "b"), ("a", "c"), ("b", "é")]); Expr::Range(a.into(), b.into()) }
            7 => Expr::Ident("ANY".into()),
            8 => { let n = self.rng.pick(&["ASCII_DIGIT", "ASCII_ALPHA", "ASCII_ALPHANUMERIC", "ASCII_HEX_DIGIT", "NEWLINE", "ASCII_ALPHA_LOWER"]).to_string();
                // a grammar rule of that name shadows the built-in: the reference would then be an (unguarded) rule reference
                if self.names.contains(&n) { Expr::Str(self.lit()) } else { Expr::Ident(n) } }
            _ => Expr::Str(self.lit()),
        }
    }
    /// reference to a rule; `leftmost` positions may only refer to later rules (no left recursion)
    fn rule_ref(&mut self, leftmost: bool) -> Option<Expr> {
        let lo = if leftmost { self.cur + 1 } else { 0 };
        let cands: Vec<&String> = self.names.iter().enumerate().filter(|(i, n)| *i >= lo && *n != "WHITESPACE" && *n != "COMMENT").map(|(_, n)| n).collect();
        if cands.is_empty() { None } else { Some(Expr::Ident((*self.rng.pick(&cands)).clone())) }
    }
    /// expressions that consume at least one character whenever they succeed, and can fail
    fn progressing(&mut self, d: usize, leftmost: bool) -> Expr {
        if d == 0 { return self.consuming(); }
        match self.rng.below(13) {
            0..=2 => self.consuming(),
            3 | 4 => { let a = self.progressing(d - 1, leftmost); let b = self.any(d - 1, false); Expr::Seq(bx(a), bx(b)) }
            5 => { let a = self.progressing(d - 1, leftmost); let b = self.progressing(d - 1, leftmost); Expr::Choice(bx(a), bx(b)) }
            6 => match self.rule_ref(leftmost) { Some(e) if leftmost => e, _ => self.consuming() },
            7 => { let a = self.progressing(d - 1, leftmost); Expr::RepOnce(bx(a)) }
            8 => { let a = self.progressing(d - 1, leftmost); Expr::RepExact(bx(a), self.rng.range(1, 3) as u32) }
            9 if self.cfg.stack_ops => { let a = self.progressing(d - 1, leftmost); Expr::Push(bx(a)) }
            10 => { let a = self.any(d - 1, leftmost); let b = self.progressing(d - 1, leftmost); Expr::Seq(bx(Expr::NegPred(bx(a))), bx(b)) }
            // the keyword-exclusion idiom and its relatives: a predicate over a rule reference (possibly nested in
            // another predicate) in front of something that consumes — rules that match or fail under look-ahead
            11 => match self.rule_ref(leftmost) {
                Some(r) => { let b = self.progressing(d - 1, leftmost);
                    let p = match self.rng.below(5) { 0 | 1 => Expr::NegPred(bx(r)), 2 => Expr::PosPred(bx(r)), 3 => Expr::NegPred(bx(Expr::PosPred(bx(r)))), _ => Expr::NegPred(bx(Expr::NegPred(bx(r)))) };
                    Expr::Seq(bx(p), bx(b)) }
                None => { let a = self.progressing(d - 1, leftmost); let b = self.any(d - 1, false); Expr::Seq(bx(a), bx(b)) } },
            _ => { let a = self.progressing(d - 1, leftmost); let b = self.any(d - 1, false); Expr::Seq(bx(a), bx(b)) }
        }
    }
    /// rule references that are leftmost are restricted to later, *progressing* rules when guarded
    pub fn any(&mut self, d: usize, leftmost: bool) -> Expr {
        if d == 0 { return if self.rng.chance(1, 5) { Expr::Str(String::new()) } else { self.consuming() }; }
        match self.rng.below(27) {
            0 | 1 => self.consuming(),
            24 => { let x = self.consuming(); let y = self.progressing(d - 1, false); Expr::Seq(bx(Expr::Rep(bx(Expr::Seq(bx(x.clone()), bx(y))))), bx(x)) }
            2..=4 => { let a = self.any(d - 1, leftmost); let b = self.any(d - 1, leftmost); Expr::Seq(bx(a), bx(b)) }
            5 | 6 => { let a = self.progressing(d - 1, leftmost); let b = self.any(d - 1, leftmost); Expr::Choice(bx(a), bx(b)) }
            7 => { let a = self.any(d - 1, leftmost); Expr::Opt(bx(a)) }
            8 | 9 => { let a = self.progressing(d - 1, leftmost); Expr::Rep(bx(a)) }
            10 => { let a = self.progressing(d - 1, leftmost); Expr::RepOnce(bx(a)) }
            11 => { let a = self.progressing(d - 1, leftmost); match self.rng.below(4) { 0 => Expr::RepExact(bx(a), self.rng.range(1, 3) as u32), 1 => Expr::RepMin(bx(a), self.rng.range(0, 2) as u32), 2 => Expr::RepMax(bx(a), self.rng.range(1, 3) as u32), _ => { let m = self.rng.range(0, 2) as u32; Expr::RepMinMax(bx(a), m, m + self.rng.range(0, 2) as u32 + if m == 0 { 1 } else { 0 }) } } }
            12 => { let a = self.any(d - 1, leftmost); Expr::PosPred(bx(a)) }
            13 => { let a = self.any(d - 1, leftmost); Expr::NegPred(bx(a)) }
            14 | 15 => match self.rule_ref(leftmost) { Some(e) => e, None => self.consuming() },
            16 if self.cfg.stack_ops => { let a = self.any(d - 1, leftmost); Expr::Push(bx(a)) }
            17 if self.cfg.stack_ops => { // PUSH(x) ~ … ~ POP-family, so the stack is usually non-empty where it is read
                let a = self.progressing(d - 1, leftmost); let mid = self.any(d - 1, false);
                let popper = match self.rng.below(7) { 0 => Expr::Ident("POP".into()), 1 => Expr::Ident("PEEK".into()), 2 => Expr::Ident("DROP".into()), 3 => Expr::Ident("POP_ALL".into()), 4 => Expr::Ident("PEEK_ALL".into()),
                    5 => Expr::PeekSlice(self.rng.below(4) as i32 - 2, if self.rng.chance(1, 2) { None } else { Some(self.rng.below(4) as i32 - 1) }), _ => Expr::Opt(bx(Expr::Ident("POP".into()))) };
                Expr::Seq(bx(Expr::Push(bx(a))), bx(Expr::Seq(bx(mid), bx(popper))))
            }
            18 if self.cfg.stack_ops => Expr::Ident(self.rng.pick(&["PEEK_ALL", "POP_ALL", "DROP"]).to_string()),
            19 => Expr::Ident(self.rng.pick(&["SOI", "EOI"]).to_string()),
            #[cfg(feature = "extras")]
            20 if self.cfg.extras && self.cfg.stack_ops => Expr::PushLiteral(self.lit()),
            #[cfg(feature = "extras")]
            21 if self.cfg.extras && self.cfg.tags && !self.has_atomic => match self.rule_ref(leftmost) { Some(e) => {
                    // mostly tags on rule references (what the documentation shows); sometimes on an optional or repeated reference
                    let e = if self.cfg.tag_shapes { match self.rng.below(6) { 0 => Expr::Opt(bx(e)), 1 => Expr::Rep(bx(e)), _ => e } } else { e };
                    Expr::NodeTag(bx(e), self.rng.pick(&["t", "u"]).to_string()) }, None => self.consuming() },
            22 => { let n = self.rng.range(1, 3); let mut alts: Vec<Expr> = (0..n).map(|_| Expr::Str(self.lit())).collect(); let mut e = alts.pop().unwrap(); while let Some(x) = alts.pop() { e = Expr::Choice(bx(x), bx(e)); }
                Expr::Rep(bx(Expr::Seq(bx(Expr::NegPred(bx(e))), bx(Expr::Ident("ANY".into()))))) }
            23 if self.cfg.stack_ops => self.stack_stress(d.min(3)),
            // the tokenizer idiom: a repetition over rule alternatives with an uncounted fallback (`ANY` / a literal), so that
            // a failed or refused rule call can be followed by matches that make no further calls
            25 => { // only later rules: they are progress-or-fail (rule 0 may match the empty string) and cannot recurse back
                let a = self.rule_ref(true).unwrap_or_else(|| self.consuming()); let b = self.rule_ref(true).unwrap_or_else(|| self.consuming());
                let fb = if self.rng.chance(1, 2) { Expr::Ident("ANY".into()) } else { Expr::Str(self.lit()) };
                let body = Expr::Choice(bx(a), bx(Expr::Choice(bx(b), bx(fb))));
                Expr::Rep(bx(body)) }
            _ => self.consuming(),
        }
    }
    /// pushes, then a group of nested optional / predicate / sequence constructs that push, drop and pop, then
    /// something that may fail, with an alternative that reads the stack: exercises the restore paths
    fn stack_group(&mut self, d: usize) -> Expr {
        // (POP+ / POP* / DROP+ : a repetition whose last, failing iteration has already touched the stack)
        let t = |g: &mut Self| match g.rng.below(14) { 0..=2 => Expr::Push(bx(Expr::Str(g.lit()))), 3 | 4 => Expr::Ident("DROP".into()), 5 => Expr::Ident("POP".into()), 6 => Expr::Ident("PEEK".into()),
            11 => Expr::RepOnce(bx(Expr::Ident("POP".into()))), 12 => Expr::Rep(bx(Expr::Ident("POP".into()))), 13 => Expr::RepOnce(bx(Expr::Ident("DROP".into()))),
            7 => Expr::Ident("PEEK_ALL".into()), 8 => Expr::PeekSlice(g.rng.below(3) as i32 - 1, if g.rng.chance(1, 2) { None } else { Some(g.rng.below(3) as i32) }), _ => Expr::Str(g.lit()) };
        if d == 0 { return t(self); }
        match self.rng.below(8) {
            0 | 1 => { let a = self.stack_group(d - 1); let b = self.stack_group(d - 1); Expr::Seq(bx(a), bx(b)) }
            2 | 3 => { let a = self.stack_group(d - 1); Expr::Opt(bx(a)) }
            4 => { let a = self.stack_group(d - 1); Expr::PosPred(bx(a)) }
            5 => { let a = self.stack_group(d - 1); Expr::NegPred(bx(a)) }
            _ => t(self),
        }
    }
    fn stack_stress(&mut self, d: usize) -> Expr {
        let n = self.rng.range(1, 3);
        let mut e = { let g = self.stack_group(d); let tail = if self.rng.chance(1, 2) { Expr::Str(self.lit()) } else { Expr::Ident(self.rng.pick(&["PEEK", "POP", "PEEK_ALL"]).to_string()) };
            let reader = Expr::Seq(bx(if self.rng.chance(1, 2) { Expr::Str(self.lit()) } else { Expr::Opt(bx(Expr::Str(self.lit()))) }), bx(Expr::Ident(self.rng.pick(&["PEEK", "POP", "PEEK_ALL", "POP_ALL"]).to_string())));
            Expr::Choice(bx(Expr::Seq(bx(g), bx(tail))), bx(reader)) };
        // a stack match over several entries directly under `?`, `*` or a non-final alternative (it may match its first
        // entries and then fail), followed by something that needs the position to be where it was
        if self.rng.chance(1, 3) {
            let pk = |g: &mut Self| match g.rng.below(3) { 0 => Expr::Ident("PEEK_ALL".into()), 1 => Expr::PeekSlice(0, None), _ => Expr::PeekSlice(g.rng.below(2) as i32, Some(g.rng.range(1, 3) as i32)) };
            let p1 = pk(self);
            let wrapped = match self.rng.below(3) { 0 => Expr::Opt(bx(p1)), 1 => { let p2 = pk(self); Expr::Choice(bx(p1), bx(p2)) } _ => Expr::Rep(bx(Expr::Seq(bx(p1), bx(Expr::Str(self.lit()))))) };
            let tail = if self.rng.chance(1, 2) { Expr::Str(self.lit()) } else { Expr::Ident("ANY".into()) };
            e = Expr::Seq(bx(wrapped), bx(tail));
        }
        let n = n.max(2);
        for _ in 0..n { e = Expr::Seq(bx(Expr::Push(bx(Expr::Str(self.lit())))), bx(e)); }
        e
    }
}

/// A random grammar. Guarded: every repetition body, every non-final alternative and every
/// leftmost rule reference is progress-or-fail / acyclic, so every parse terminates.
pub fn gen_grammar(rng: &mut Rng, cfg: &GenCfg) -> Vec<Rule> {
    let n = rng.range(1, cfg.max_rules);
    let mut names: Vec<String> = (0..n).map(|i| format!("r{}", i)).collect();
    if cfg.builtin_names && rng.chance(1, 6) && n >= 2 { names[n - 1] = rng.pick(&["ASCII_DIGIT", "NEWLINE", "ASCII_ALPHA"]).to_string(); }
    let ws = rng.chance(1, 2); let cm = rng.chance(1, 4);
    let tys = [RuleType::Normal, RuleType::Normal, RuleType::Silent, RuleType::Atomic, RuleType::CompoundAtomic, RuleType::NonAtomic];
    let rule_tys: Vec<RuleType> = (0..n).map(|_| *rng.pick(&tys)).collect();
    let has_atomic = rule_tys.iter().any(|t| matches!(t, RuleType::Atomic | RuleType::CompoundAtomic));
    let mut rules = vec![];
    for i in 0..n {
        let d = rng.range(1, cfg.max_depth);
        let mut g = GGen { rng, cfg, names: names.clone(), cur: i, has_atomic: has_atomic || ws || cm };
        // rule bodies referenced at leftmost positions must progress: make every rule except r0 progressing
        let expr = if i == 0 { g.any(d, true) } else { g.progressing(d, true) };
        // one grammar in five is centred on the stack idiom (so that a run of a few hundred grammars always has some):
        // the start rule begins with it
        let expr = if i == 0 && cfg.stack_ops && g.rng.chance(1, 5) { let st = g.stack_stress(2); Expr::Seq(bx(st), bx(Expr::Opt(bx(expr)))) } else { expr };
        rules.push(Rule { name: names[i].clone(), ty: rule_tys[i], expr });
    }
    let wtys = [RuleType::Silent, RuleType::Silent, RuleType::Normal, RuleType::Atomic, RuleType::CompoundAtomic, RuleType::NonAtomic];
    // idiom: an atomic "text up to one of k terminators" rule (the optimizer turns it into a skip-until search),
    // with terminators that may share a first byte, used by rule 0
    if rng.chance(1, 4) {
        let k = rng.range(1, 4);
        let pool = ["a", "b", "c", "ab", "ac", "ba", "é", "bc"];
        let mut alts: Vec<Expr> = (0..k).map(|_| Expr::Str(rng.pick(&pool[..]).to_string())).collect();
        let mut e = alts.pop().unwrap(); while let Some(x) = alts.pop() { e = Expr::Choice(bx(x), bx(e)); }
        // `(!t ~ ANY)*`, and the `+` / `{1,}` spellings that must NOT become a search (they need one iteration)
        let unit = Expr::Seq(bx(Expr::NegPred(bx(e.clone()))), bx(Expr::Ident("ANY".into())));
        let body = match rng.below(5) { 0 => Expr::RepOnce(bx(unit)), 1 => Expr::RepMin(bx(unit), 1), _ => Expr::Rep(bx(unit)) };
        rules.push(Rule { name: "txt".into(), ty: *rng.pick(&[RuleType::Atomic, RuleType::Atomic, RuleType::CompoundAtomic]), expr: body });
        let r0 = rules[0].expr.clone();
        rules[0].expr = match rng.below(3) { 0 => Expr::Seq(bx(Expr::Ident("txt".into())), bx(Expr::Opt(bx(r0)))), 1 => Expr::Seq(bx(Expr::Ident("txt".into())), bx(Expr::Seq(bx(e), bx(Expr::Ident("txt".into()))))), _ => Expr::Choice(bx(Expr::Seq(bx(Expr::Str("c".into())), bx(r0))), bx(Expr::Ident("txt".into()))) };
    }
    // WHITESPACE / COMMENT whose body goes through a (non-silent) helper rule: pairs and attempts inside them
    let inner = ws && rng.chance(1, 4);
    if inner {
        let ty = *rng.pick(&[RuleType::Normal, RuleType::Normal, RuleType::Silent, RuleType::Atomic]);
        rules.push(Rule { name: "wsi".into(), ty, expr: Expr::Choice(bx(Expr::Str(" ".into())), bx(Expr::Str("_".into()))) });
        rules.push(Rule { name: "WHITESPACE".into(), ty: *rng.pick(&wtys), expr: if rng.chance(1, 2) { Expr::Ident("wsi".into()) } else { Expr::Seq(bx(Expr::Ident("wsi".into())), bx(Expr::Opt(bx(Expr::Str("_".into()))))) } });
    }
    if ws && !inner { rules.push(Rule { name: "WHITESPACE".into(), ty: *rng.pick(&wtys), expr: if rng.chance(1, 3) { Expr::Choice(bx(Expr::Str(" ".into())), bx(Expr::Str("_".into()))) } else { Expr::Str(" ".into()) } }); }
    if cm { rules.push(Rule { name: "COMMENT".into(), ty: *rng.pick(&wtys), expr: if rng.chance(1, 2) { Expr::Str("#".into()) } else { Expr::Seq(bx(Expr::Str("#".into())), bx(Expr::Str("#".into()))) } }); }
    rules
}

/// A random grammar whose start rule begins with idiom `k` (so that every run, whatever its seed, contains the
/// shapes that seeded changes were found to need): 0 stack stress, 1 partial stack match under `?`/`|`/`*`, 2 stack
/// operations inside a positive predicate, 3 skip-until rule with case-sensitive and -insensitive terminators,
/// 4 predicate over a rule reference, 5 tokenizer loop, 6 WHITESPACE through a helper rule, 7 `(e ~ rest) | e` in a
/// rule with implicit whitespace, 8/9 `#t = r?` / `#t = r*` (grammar-extras).
pub fn gen_grammar_idiom(rng: &mut Rng, cfg: &GenCfg, k: usize) -> Vec<Rule> {
    let mut rules = gen_grammar(rng, cfg);
    let names: Vec<String> = rules.iter().map(|r| r.name.clone()).collect();
    let later: Vec<String> = names.iter().skip(1).filter(|n| *n != "WHITESPACE" && *n != "COMMENT" && *n != "wsi" && *n != "txt").cloned().collect();
    let variant = k / 12;   // the i-th grammar built around the same idiom: used to walk through the idiom's main shapes
    let k = k % 12;
    let k = if k == 11 && !cfg.builtin_names { 4 } else { k };
    let k = if (k == 8 || k == 9) && !(cfg.extras && cfg.tag_shapes && cfg!(feature = "extras")) { k - 4 } else { k };
    let k = if k == 10 && !cfg.stack_ops { 3 } else { k };
    let k = if !cfg.stack_ops && k < 3 { 3 + k % 5 } else { k };
    let lits = ["a", "b", "c", "ab"];
    let s = |rng: &mut Rng| Expr::Str(rng.pick(&lits[..]).to_string());
    let has_ws = names.iter().any(|n| n == "WHITESPACE");
    let idiom = match k {
        0 => { let mut g = GGen { rng, cfg, names: names.clone(), cur: 0, has_atomic: true }; g.stack_stress(2) }
        1 => { let e_old = { let pk = |rng: &mut Rng| match rng.below(3) { 0 => Expr::Ident("PEEK_ALL".into()), 1 => Expr::PeekSlice(0, None), _ => Expr::PeekSlice(0, Some(2)) };
            let p1 = pk(rng);
            let w = match rng.below(3) { 0 => Expr::Opt(bx(p1)), 1 => { let p2 = pk(rng); Expr::Choice(bx(p1), bx(p2)) } _ => Expr::Rep(bx(Expr::Seq(bx(p1), bx(s(rng))))) };
            let tail = if rng.chance(1, 2) { Expr::Ident("ANY".into()) } else { s(rng) };
            let a = *rng.pick(&["a", "b"]); let b = *rng.pick(&["a", "b", "c"]);
            Expr::Seq(bx(Expr::Push(bx(Expr::Str(a.into())))), bx(Expr::Seq(bx(Expr::Push(bx(Expr::Str(b.into())))), bx(Expr::Seq(bx(w), bx(tail)))))) };
            // (the random choices above are made in every variant, so that the grammars that follow are the same as before)
            if variant % 3 == 2 {
                // a nested sequence (through rules) that pops BOTH a value pushed inside the enclosing alternative and one pushed
                // before it, succeeds, and the alternative then fails: the next alternative must find the stack as it was
                let (a, b) = if variant % 2 == 0 { ("a", "b") } else { ("b", "a") };
                let un = format!("un{}", rules.len()); let at = format!("at{}", rules.len());
                rules.push(Rule { name: un.clone(), ty: RuleType::Normal, expr: Expr::Seq(bx(Expr::Ident("POP".into())), bx(Expr::Ident("POP".into()))) });
                rules.push(Rule { name: at.clone(), ty: RuleType::Normal, expr: Expr::Seq(bx(Expr::Push(bx(Expr::Str(b.into())))), bx(Expr::Ident(un))) });
                let fallback = Expr::Seq(bx(Expr::Str(format!("{}{}", b, b))), bx(Expr::Ident("POP".into())));
                Expr::Seq(bx(Expr::Push(bx(Expr::Str(a.into())))), bx(Expr::Choice(bx(Expr::Seq(bx(Expr::Ident(at)), bx(Expr::Str("c".into())))), bx(fallback))))
            } else { e_old } }
        2 => { let inner = match rng.below(4) { 0 => Expr::Push(bx(s(rng))), 1 => Expr::Ident("POP".into()), 2 => Expr::Ident("DROP".into()), _ => Expr::Seq(bx(Expr::Push(bx(s(rng)))), bx(s(rng))) };
            let pred = if rng.chance(3, 4) { Expr::PosPred(bx(inner)) } else { Expr::NegPred(bx(Expr::NegPred(bx(inner)))) };
            let reader = Expr::Ident(rng.pick(&["POP", "PEEK", "PEEK_ALL"]).to_string());
            let mid = if rng.chance(1, 2) { s(rng) } else { Expr::Opt(bx(s(rng))) };
            Expr::Seq(bx(Expr::Push(bx(s(rng)))), bx(Expr::Seq(bx(pred), bx(Expr::Seq(bx(mid), bx(reader)))))) }
        3 => { let n = rng.range(1, 4); let pool = ["a", "b", "c", "ab", "ac", "ba", "bc"];
            // every other grammar of this idiom has four or five case-sensitive terminators of different lengths (the general
            // search path of skip_until, where a short terminator may sit in the last bytes of the input)
            let fixed: Option<&[&str]> = match variant % 4 { 0 => Some(&["ab", "c", "ba", "bc"]), 2 => Some(&["abc", "b", "ca", "cb", "x"]), _ => None };
            // (the random terminators are drawn in every variant, so that the grammars that follow are the same as before)
            let drawn: Vec<Expr> = (0..n).map(|_| { let t = rng.pick(&pool[..]).to_string(); if rng.chance(1, 3) { Expr::Insens(t) } else { Expr::Str(t) } }).collect();
            let mut alts: Vec<Expr> = match fixed { Some(ts) => ts.iter().map(|t| Expr::Str(t.to_string())).collect(), None => drawn };
            let mut e = alts.pop().unwrap(); while let Some(x) = alts.pop() { e = Expr::Choice(bx(x), bx(e)); }
            let nm = format!("sk{}", rules.len());
            let unit = Expr::Seq(bx(Expr::NegPred(bx(e.clone()))), bx(Expr::Ident("ANY".into())));
            rules.push(Rule { name: nm.clone(), ty: RuleType::Atomic, expr: match rng.below(4) { 0 => Expr::RepOnce(bx(unit)), _ => Expr::Rep(bx(unit)) } });
            Expr::Seq(bx(Expr::Ident(nm)), bx(Expr::Opt(bx(e)))) }
        4 => { // two fresh non-silent rules with different literals: one under the predicate, one tried at the same position after it
            let (l1, l2) = *rng.pick(&[("a", "b"), ("b", "a"), ("a", "ab"), ("ab", "c"), ("c", "a")]);
            let kw = format!("kw{}", rules.len()); let ot = format!("ot{}", rules.len());
            rules.push(Rule { name: kw.clone(), ty: *rng.pick(&[RuleType::Normal, RuleType::Normal, RuleType::Atomic]), expr: Expr::Str(l1.into()) });
            rules.push(Rule { name: ot.clone(), ty: RuleType::Normal, expr: if rng.chance(1, 2) { Expr::Str(l2.into()) } else { Expr::Seq(bx(Expr::Str(l2.into())), bx(Expr::Str("c".into()))) } });
            let kw2 = kw.clone();
            let r = Expr::Ident(kw);
            let p = match rng.below(5) { 0 | 1 => Expr::NegPred(bx(r)), 2 => Expr::PosPred(bx(r)), 3 => Expr::NegPred(bx(Expr::PosPred(bx(r)))), _ => Expr::NegPred(bx(Expr::NegPred(bx(r)))) };
            let guarded = Expr::Seq(bx(p), bx(if rng.chance(1, 2) { Expr::Ident("ANY".into()) } else { s(rng) }));
            if rng.chance(3, 4) { rules[0].ty = *rng.pick(&[RuleType::Normal, RuleType::Normal, RuleType::NonAtomic]); }
            // often with a second rule tried at the same position (two attempts inside the enclosing rule, one of them under a predicate)
            let e_old = if rng.chance(2, 3) { Expr::Choice(bx(guarded), bx(Expr::Ident(ot))) } else { guarded };
            // for two of the five literal pairs (no further random choice is made, so the grammars that follow are unchanged): the same
            // rule matches under `!` twice at one position, through two silent helper rules that cannot be merged — the report
            // lists it once
            if (l1, l2) == ("a", "ab") || (l1, l2) == ("c", "a") {
                let h1 = format!("ha{}", rules.len()); let h2 = format!("hb{}", rules.len());
                let np = |n: &str| Expr::NegPred(bx(Expr::Ident(n.to_string())));
                rules.push(Rule { name: h1.clone(), ty: RuleType::Silent, expr: Expr::Seq(bx(np(&kw2)), bx(Expr::Str("x".into()))) });
                rules.push(Rule { name: h2.clone(), ty: RuleType::Silent, expr: Expr::Seq(bx(np(&kw2)), bx(Expr::Seq(bx(Expr::Str("x".into())), bx(Expr::Str("c".into()))))) });
                Expr::Seq(bx(Expr::Str("b".into())), bx(Expr::Choice(bx(Expr::Ident(h1)), bx(Expr::Ident(h2)))))
            } else { e_old } }
        5 if !later.is_empty() => { let a = Expr::Ident(rng.pick(&later[..]).clone()); let b = Expr::Ident(rng.pick(&later[..]).clone());
            Expr::Rep(bx(Expr::Choice(bx(a), bx(Expr::Choice(bx(b), bx(Expr::Ident("ANY".into()))))))) }
        // tags on an optional / repeated rule reference, after another pair (grammar-extras)
        #[cfg(feature = "extras")]
        8 | 9 if !later.is_empty() => { let a = Expr::Ident(rng.pick(&later[..]).clone()); let b = Expr::Ident(rng.pick(&later[..]).clone());
            let tagged = if k == 8 { Expr::NodeTag(bx(Expr::Opt(bx(b))), "t".into()) } else { Expr::NodeTag(bx(Expr::Rep(bx(b))), "t".into()) };
            if rng.chance(1, 2) { Expr::Seq(bx(a), bx(tagged)) } else { tagged } }
        // pushes, then a repeated stack reader (its last, failing iteration has already popped), then readers of what must be left
        10 => { let npush = if variant % 4 == 3 { 3 } else { 2 };   // two pushes: the shapes show within the exhaustive input length
            let rep = match variant % 4 { 0 | 1 => Expr::RepOnce(bx(Expr::Ident("POP".into()))), 2 => Expr::Rep(bx(Expr::Ident("POP".into()))), _ => Expr::RepOnce(bx(Expr::Seq(bx(Expr::Ident("POP".into())), bx(Expr::Opt(bx(s(rng))))))) };
            let tail = match rng.below(3) { 0 => Expr::Seq(bx(s(rng)), bx(Expr::Ident("POP".into()))), 1 => Expr::Ident("PEEK_ALL".into()), _ => Expr::Seq(bx(Expr::Ident("POP".into())), bx(Expr::Opt(bx(Expr::Ident("POP".into()))))) };
            let mut e = Expr::Seq(bx(rep), bx(tail));
            for _ in 0..npush { e = Expr::Seq(bx(Expr::Push(bx(s(rng)))), bx(e)); }
            rules[0].ty = [RuleType::Atomic, RuleType::CompoundAtomic, RuleType::Atomic, RuleType::Normal][variant % 4];
            e }
        // a user rule named like a basic ASCII built-in next to a composite built-in that "contains" it: the grammar's rule
        // is used where its name is written, never inside the composite built-in
        11 => { let (user, comps): (&str, &[&str]) = [("ASCII_DIGIT", &["ASCII_ALPHANUMERIC", "ASCII_HEX_DIGIT"][..]), ("ASCII_ALPHA_LOWER", &["ASCII_ALPHA", "ASCII_ALPHANUMERIC"][..]),
                ("ASCII_ALPHA_UPPER", &["ASCII_ALPHA", "ASCII_ALPHANUMERIC"][..]), ("ASCII_ALPHA", &["ASCII_ALPHANUMERIC"][..]), ("ASCII_NONZERO_DIGIT", &["ASCII_DIGIT", "ASCII_HEX_DIGIT"][..])][variant % 5];
            if !names.iter().any(|n| n == user) {
                let body = match rng.below(3) { 0 => Expr::Seq(bx(s(rng)), bx(s(rng))), 1 => Expr::Str("c".into()), _ => Expr::Seq(bx(Expr::Str("x".into())), bx(Expr::Opt(bx(s(rng))))) };
                rules.push(Rule { name: user.into(), ty: *rng.pick(&[RuleType::Normal, RuleType::Normal, RuleType::Silent, RuleType::Atomic]), expr: body }); }
            let comp = Expr::Ident(rng.pick(comps).to_string());
            let head = match rng.below(3) { 0 => Expr::RepOnce(bx(comp)), 1 => Expr::Seq(bx(comp.clone()), bx(Expr::Opt(bx(comp)))), _ => Expr::Rep(bx(Expr::Choice(bx(Expr::Ident(user.into())), bx(comp)))) };
            Expr::Seq(bx(head), bx(Expr::Opt(bx(s(rng))))) }
        7 => { let e = if !later.is_empty() && rng.chance(1, 2) { Expr::Ident(rng.pick(&later[..]).clone()) } else { s(rng) }; let rest = s(rng);
            rules[0].ty = *rng.pick(&[RuleType::Silent, RuleType::NonAtomic, RuleType::Normal, RuleType::Atomic]);
            Expr::Choice(bx(Expr::Seq(bx(e.clone()), bx(rest))), bx(e)) }
        _ => Expr::Seq(bx(s(rng)), bx(s(rng))),
    };
    if k == 6 {
        // WHITESPACE through a helper rule, of every modifier in turn (the i-th grammar of this idiom takes the i-th)
        rules.retain(|r| r.name != "WHITESPACE" && r.name != "wsi");
        rules.push(Rule { name: "wsi".into(), ty: [RuleType::Normal, RuleType::Normal, RuleType::Silent][variant % 3], expr: Expr::Choice(bx(Expr::Str(" ".into())), bx(Expr::Str("_".into()))) });
        rules.push(Rule { name: "WHITESPACE".into(), ty: [RuleType::CompoundAtomic, RuleType::Normal, RuleType::NonAtomic, RuleType::Atomic, RuleType::Silent][variant % 5], expr: if variant % 2 == 0 { Expr::Ident("wsi".into()) } else { Expr::Seq(bx(Expr::Ident("wsi".into())), bx(Expr::Opt(bx(Expr::Str("_".into()))))) } });
    } else if k == 7 && !has_ws { rules.push(Rule { name: "WHITESPACE".into(), ty: RuleType::Silent, expr: Expr::Str(" ".into()) }); }
    let old = std::mem::replace(&mut rules[0].expr, Expr::Str(String::new()));
    // the old body stays reachable; an alternative keeps the start rule from failing outright when the idiom does
    rules[0].expr = if k == 7 { Expr::Seq(bx(idiom), bx(Expr::Opt(bx(old)))) } else if rng.chance(1, 2) { Expr::Seq(bx(idiom), bx(Expr::Opt(bx(old)))) } else { Expr::Choice(bx(Expr::Seq(bx(Expr::Str("c".into())), bx(old))), bx(idiom)) };
    rules
}

pub fn alphabet(rules: &[Rule]) -> Vec<&'static str> {
    let mut a = vec!["a", "b", "c", "x"];
    if rules.iter().any(|r| r.name == "WHITESPACE") { a.push(" "); }
    if rules.iter().any(|r| r.name == "COMMENT") { a.push("#"); }
    let s = show_rules(rules);
    if s.contains("c3a9") { a.push("é"); }
    if s.contains("ASCII_DIGIT") || s.contains("ASCII_ALPHANUMERIC") || s.contains("ASCII_HEX") { a.push("1"); }
    if s.contains("NEWLINE") { a.push("\n"); }
    if s.contains("(ins ") { a.push("A"); a.push("B"); }
    a
}
/// all strings over the alphabet up to `len` characters
pub fn all_inputs(alpha: &[&str], len: usize) -> Vec<String> {
    let mut out = vec![String::new()]; let mut layer = vec![String::new()];
    for _ in 0..len { let mut next = vec![]; for s in &layer { for a in alpha { next.push(format!("{}{}", s, a)); } } out.extend(next.iter().cloned()); layer = next; }
    out
}
