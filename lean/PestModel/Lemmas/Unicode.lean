import PestModel.Model.Unicode
/-!
Generic lemmas lifting bit-set facts (`bitsOf`, `partitionCheck`, `disjointCheck`, `unionBits`) to
pointwise statements about every code point. The tables are only variables here.
-/
namespace PestModel.Unicode

/-- one inclusive range as a mask. -/
theorem testBit_rangeMask (lo n cp : Nat) :
    ((((1 <<< n) - 1) <<< lo).testBit cp) = decide (lo ≤ cp ∧ cp < lo + n) := by
  rw [Nat.testBit_shiftLeft, Nat.one_shiftLeft, Nat.testBit_two_pow_sub_one]
  by_cases h1 : lo ≤ cp
  · by_cases h2 : cp - lo < n
    · have : cp < lo + n := by omega
      simp [h1, h2, this]
    · have : ¬ cp < lo + n := by omega
      simp [h1, h2, this]
  · simp [h1]

theorem testBit_range (lo hi cp : Nat) :
    ((((1 <<< (hi + 1 - lo)) - 1) <<< lo).testBit cp) = decide (lo ≤ cp ∧ cp ≤ hi) := by
  rw [testBit_rangeMask]
  by_cases h : lo ≤ cp ∧ cp ≤ hi
  · have : lo ≤ cp ∧ cp < lo + (hi + 1 - lo) := by omega
    simp [h, this]
  · have : ¬ (lo ≤ cp ∧ cp < lo + (hi + 1 - lo)) := by omega
    simp [h, this]

theorem testBit_foldl_bits (rs : Ranges) (acc cp : Nat) :
    (rs.foldl (fun acc (p : Nat × Nat) => acc ||| (((1 <<< (p.2 + 1 - p.1)) - 1) <<< p.1)) acc).testBit cp
      = (acc.testBit cp || mem rs cp) := by
  induction rs generalizing acc with
  | nil => simp [mem]
  | cons p rest ih =>
    rw [List.foldl_cons, ih, Nat.testBit_or, testBit_range]
    simp [mem, Bool.or_assoc]

theorem testBit_bitsOf (rs : Ranges) (cp : Nat) : (bitsOf rs).testBit cp = mem rs cp := by
  have := testBit_foldl_bits rs 0 cp
  simpa [bitsOf] using this

theorem scalarMask_testBit (cp : Nat) : scalarMask.testBit cp = isScalar cp := by
  rw [scalarMask, testBit_bitsOf]
  simp only [mem, isScalar, List.any_cons, List.any_nil, Bool.or_false]
  rw [← Bool.decide_or]
  apply decide_eq_decide.mpr
  omega

theorem and_eq_zero_testBit {a b : Nat} (h : a &&& b = 0) (cp : Nat) :
    (a.testBit cp && b.testBit cp) = false := by
  have := congrArg (Nat.testBit · cp) h
  simpa [Nat.testBit_and] using this

theorem partition_go_lift (total cp : Nat) (hcp : total.testBit cp = true) (sets : List Ranges) (acc : Nat)
    (h : partitionCheck.go total (sets.map fun rs => bitsOf rs &&& total) acc = true) :
    (sets.filter (mem · cp)).length = if acc.testBit cp then 0 else 1 := by
  induction sets generalizing acc with
  | nil =>
    simp only [List.map_nil, partitionCheck.go, beq_iff_eq] at h
    subst h
    simp [hcp]
  | cons rs rest ih =>
    simp only [List.map_cons, partitionCheck.go, Bool.and_eq_true, beq_iff_eq] at h
    obtain ⟨h0, hgo⟩ := h
    have hd := and_eq_zero_testBit h0 cp
    have := ih _ hgo
    rw [Nat.testBit_or, Nat.testBit_and, testBit_bitsOf, hcp, Bool.and_true] at this
    rw [Nat.testBit_and, testBit_bitsOf, hcp, Bool.and_true] at hd
    rw [List.filter_cons]
    cases ha : acc.testBit cp <;> cases hm : mem rs cp <;> simp_all

theorem partition_lift (sets : List Ranges) (total : Nat)
    (h : partitionCheck (sets.map fun rs => bitsOf rs &&& total) total = true)
    (cp : Nat) (hcp : total.testBit cp = true) : (sets.filter (mem · cp)).length = 1 := by
  have := partition_go_lift total cp hcp sets 0 h
  simpa using this

theorem disjoint_go_lift (cp : Nat) (sets : List Ranges) (acc : Nat)
    (h : disjointCheck.go (sets.map bitsOf) acc = true) :
    (sets.filter (mem · cp)).length ≤ if acc.testBit cp then 0 else 1 := by
  induction sets generalizing acc with
  | nil => simp
  | cons rs rest ih =>
    simp only [List.map_cons, disjointCheck.go, Bool.and_eq_true, beq_iff_eq] at h
    obtain ⟨h0, hgo⟩ := h
    have hd := and_eq_zero_testBit h0 cp
    have := ih _ hgo
    rw [Nat.testBit_or, testBit_bitsOf] at this
    rw [testBit_bitsOf] at hd
    rw [List.filter_cons]
    cases ha : acc.testBit cp <;> cases hm : mem rs cp <;> simp_all

theorem disjoint_lift (sets : List Ranges) (h : disjointCheck (sets.map bitsOf) = true) (cp : Nat) :
    (sets.filter (mem · cp)).length ≤ 1 := by
  have := disjoint_go_lift cp sets 0 h
  simpa using this

theorem testBit_foldl_or (parts : List Ranges) (acc cp : Nat) :
    ((parts.map bitsOf).foldl (· ||| ·) acc).testBit cp = (acc.testBit cp || parts.any (mem · cp)) := by
  induction parts generalizing acc with
  | nil => simp
  | cons p rest ih =>
    rw [List.map_cons, List.foldl_cons, ih, Nat.testBit_or, testBit_bitsOf]
    simp [Bool.or_assoc]

theorem union_lift (g : Ranges) (parts : List Ranges) (h : bitsOf g = unionBits (parts.map bitsOf))
    (cp : Nat) : mem g cp = parts.any (mem · cp) := by
  rw [← testBit_bitsOf, h, unionBits, testBit_foldl_or]
  simp

theorem groups_lift (gs : List (Ranges × List Ranges))
    (h : (gs.all fun (g, parts) => bitsOf g == unionBits (parts.map bitsOf)) = true)
    (g : Ranges) (parts : List Ranges) (hg : (g, parts) ∈ gs) (cp : Nat) :
    mem g cp = parts.any (mem · cp) := by
  rw [List.all_eq_true] at h
  have := h _ hg
  exact union_lift g parts (by simpa using this) cp

end PestModel.Unicode
