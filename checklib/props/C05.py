"""C05 — optimizer passes preserve the meaning of every grammar."""
from props.common import *
import binascii

MODULE = "PestModel.Thm.C05"
DRV, MODE = "drv_opt", "grammar"
LISTER_ID = "C05-lister-not-preserving"


def _alphabet(sexp):
    """characters of the literals in a rule-set s-expression (hex-coded), plus a blank when WHITESPACE is defined."""
    import re, binascii
    chars = []
    for h in re.findall(r"\((?:str|ins|pushlit) ([0-9a-f]+)\)", sexp) + re.findall(r"\(skip((?: [0-9a-f]+)+)\)", sexp):
        for hh in h.split():
            try:
                for ch in binascii.unhexlify(hh).decode():
                    if ch not in chars:
                        chars.append(ch)
            except Exception:
                pass
    # case-insensitive literals: the other case of their letters comes first
    swapped = []
    for hh in re.findall(r"\(ins ([0-9a-f]+)\)", sexp):
        try:
            for ch in binascii.unhexlify(hh).decode():
                if ch.swapcase() != ch and ch.swapcase() not in swapped:
                    swapped.append(ch.swapcase())
        except Exception:
            pass
    chars = swapped[:2] + [c for c in chars if c not in swapped[:2]]
    for extra, cond in ((" ", "WHITESPACE" in sexp), ("#", "COMMENT" in sexp), ("1", "ASCII_" in sexp), ("z", True)):
        if cond and extra not in chars:
            chars.append(extra)
    return chars[:6]


def search_real_pass(ctx, cname, syntactic, max_cases=400, maxlen=3):
    """The real pass output differs from the Lean pass. Search for a concrete input on which the reference
    denotation of the original rule set and of the REAL output differ (D lines of the model driver)."""
    import itertools, re, binascii
    reqs, meta = [], []
    for (op, imp, mod) in sorted(syntactic, key=lambda t: (len(t[0]), t[0]))[:max_cases]:
        w = op.split(" ", 3)
        if len(w) < 4 or not imp.startswith("(("):
            continue
        ex, rules_in, rules_out = w[1], w[3], imp
        names = re.findall(r"\(rule (\S+) ", rules_in)
        alpha = _alphabet(rules_in)
        inputs = [""] + ["".join(t) for n in range(1, maxlen + 1) for t in itertools.product(alpha, repeat=n)]
        inputs = inputs[:160]
        hexs = " ".join(binascii.hexlify(i.encode()).decode() or "-" for i in inputs)
        for name in names[:6]:
            reqs.append(f"D {ex} {rules_in} {name} {hexs}"); reqs.append(f"D {ex} {rules_out} {name} {hexs}")
            meta.append((op, imp, name, inputs))
    if not reqs:
        return None
    d = os.path.join(ctx.rundir, cname, "search"); os.makedirs(d, exist_ok=True)
    opsf, outf = os.path.join(d, "ops.txt"), os.path.join(d, "model.txt")
    open(opsf, "w").write("\n".join(reqs) + "\n")
    run_model(MODE, opsf, outf)
    res = read_lines(outf)
    for k, (op, imp, name, inputs) in enumerate(meta):
        if 2 * k + 1 >= len(res):
            break
        a, b = res[2 * k].split(" | "), res[2 * k + 1].split(" | ")
        if "bad-op" in res[2 * k] or "bad-op" in res[2 * k + 1] or len(a) != len(b):
            continue
        for j, (x, y) in enumerate(zip(a, b)):
            if x != y and "fuel" not in (x, y):
                return (op, imp, name, binascii.hexlify(inputs[j].encode()).decode() or "-", x, y)
    return None


def run(ctx):
    frag, problems = proof_leg(ctx, MODULE)
    allcs, stats, found_input = [], {}, False
    lister_known = next((k for k in load_known() if k.get("id") == LISTER_ID and k.get("status") == "known" and k.get("property") == "C05"), None)
    for fs in ("default", "extras"):
        ok, out, bindir, _ = cargo_build(fs, [DRV])
        if not ok:
            ctx.violation({"obligation": f"harness does not build against /repo (features {fs})", "log": out[-3000:]}, no_input=True)
            continue
        drv = os.path.join(bindir, DRV)
        cs = run_corpus_and_gen(ctx, drv, MODE, [("gen-" + fs, ["gen", ctx.tier, str(ctx.seed)])]) if fs == "default" else \
            [correspond("gen-" + fs, drv, ["gen", ctx.tier, str(ctx.seed)], MODE, os.path.join(ctx.rundir, "gen-" + fs))]
        for c in cs:
            allcs.append(c)
            if c.error:
                ctx.violation({"correspondence": c.name, "error": c.error}, no_input=True)
                continue
            stats[c.name] = c.stats
            syntactic, semantic = [], []
            # index E lines by (grammar text) -> pass -> model verdict, to classify pipeline differences
            verdict_nolist = {}
            opsf = read_lines(os.path.join(ctx.rundir, c.name, "ops.txt")); modf = read_lines(os.path.join(ctx.rundir, c.name, "model.txt"))
            for op, mod in zip(opsf, modf):
                w = op.split(" ", 3)
                if w[0] == "E" and w[2] == "optnolist":
                    verdict_nolist[w[3]] = mod
            for (i, op, imp, mod) in c.mismatch:
                w = op.split(" ", 3)
                if w[0] == "O":
                    syntactic.append((op, imp, mod))
                elif w[0] == "E":
                    if lister_known and (w[2] == "list" or (w[2] == "optimize" and verdict_nolist.get(w[3]) == "same")):
                        ctx.known_finding(LISTER_ID, "optimizer `list` pass rewrites (a ~ b)* ~ a into a ~ (b ~ a)* which is not meaning-preserving (reference denotation differs on some input; the pipeline without `list` is meaning-preserving on the same grammar)")
                    else:
                        semantic.append((op, imp, mod))
            if semantic:
                op, imp, mod = min(semantic, key=lambda t: (len(t[0]), t[0]))
                head, _, tail = op.rpartition(")")
                parts = tail.split()
                idx = [int(x) for x in mod.split()[1:]] if mod.startswith("diff") else []
                ctx.violation({"kind": "an optimizer pass changes the meaning of a grammar: the reference denotation of the rule set and of its image under the (real, syntactically verified) pass differ",
                               "features": fs, "pass": op.split(" ")[2], "case": f"{head}) {parts[0]} " + " ".join(parts[1 + j] for j in idx[:3]),
                               "differing_inputs_hex": [parts[1 + j] for j in idx[:10]], "model_verdict": mod[:200], "failing_lines_in_run": len(semantic)})
                found_input = True
            elif syntactic and (hit := search_real_pass(ctx, c.name, syntactic)):
                op, imp, rule, inp, before, after = hit
                ctx.violation({"kind": "an optimizer pass (its REAL output, which no longer equals the Lean transcription) changes the meaning of a grammar: the reference denotation of the rule set and of the pass's output differ",
                               "features": fs, "pass": op.split(" ")[2], "case": op, "pass_output": imp[:3000], "start_rule": rule, "input_hex": inp,
                               "meaning_before": before[:500], "meaning_after": after[:500], "mismatches_in_run": len(syntactic)})
                found_input = True
            elif syntactic:
                op, imp, mod = min(syntactic, key=lambda t: (len(t[0]), t[0]))
                ctx.violation({"kind": "correspondence `O` (real optimizer pass output vs PestModel.G pass output, as trees) no longer checks; no meaning-changing input was found for the passes as modelled",
                               "features": fs, "case": op, "impl": imp[:2000], "model": mod[:2000], "mismatches_in_run": len(syntactic)}, no_input=True)
    # the passes' run-time contracts: the REAL pipeline (optimize, then Vm::parse, which executes Skip / RestoreOnErr / the
    # rewritten expressions with the real primitives) against the reference denotation of the grammar AS WRITTEN, on the
    # grammars built around the idioms the passes rewrite (C01's driver, profile C05)
    vm_stats = {}
    ok, out, bindir, _ = cargo_build("default", ["drv_sem"])
    if not ok:
        ctx.violation({"obligation": "harness does not build against /repo (drv_sem)", "log": out[-2000:]}, no_input=True)
    else:
        os.environ["DRV_SEM_PROFILE"] = "C05"
        try:
            c = correspond("vm-idioms", os.path.join(bindir, "drv_sem"), ["gen", ctx.tier, str(ctx.seed)], MODE, os.path.join(ctx.rundir, "vm-idioms"))
        finally:
            os.environ.pop("DRV_SEM_PROFILE", None)
        allcs.append(c)
        if c.error:
            ctx.violation({"correspondence": c.name, "error": c.error}, no_input=True)
        else:
            vm_stats = {k: v for k, v in c.stats.items() if k != "samples"}
            oracle = {i: v for (i, op, imp, v) in c.oracle_fail}
            bad = []
            for (i, op, imp, mod) in c.mismatch:
                a, b = imp.split(" | "), mod.split(" | ")
                nolist = {}
                for item in oracle.get(i, "").split()[1:]:
                    k, _, h = item.partition("=")
                    try:
                        nolist[int(k)] = binascii.unhexlify(h).decode()
                    except Exception:
                        pass
                if len(a) != len(b):
                    bad.append((op, imp[:300], mod[:300])); continue
                head, _, tail = op.rpartition(")")
                parts = tail.split()
                for j, (x, y) in enumerate(zip(a, b)):
                    if x == y or y in ("fuel", "bad-op"):
                        continue
                    if lister_known and nolist.get(j) == y:
                        ctx.known_finding(LISTER_ID, "optimizer `list` pass rewrites (a ~ b)* ~ a into a ~ (b ~ a)* which is not meaning-preserving (reference denotation differs on some input; the pipeline without `list` is meaning-preserving on the same grammar)")
                    else:
                        bad.append((f"{head}) {parts[0]} {parts[1 + j]}", x, y))
            if bad:
                case, x, y = min(bad, key=lambda t: (len(t[0]), t[0]))
                ctx.violation({"kind": "the optimized rules, run by the real VM, do not accept / consume / emit what the rules as written mean (reference denotation): a pass's output and the primitive that executes it disagree",
                               "leg": "vm-idioms", "features": "default", "case": case, "impl": x, "reference": y, "failing_inputs_in_run": len(bad)})
                found_input = True
    if problems and not found_input:
        ctx.violation({"obligation": MODULE, "problems": problems}, no_input=True)
    cov = dict(frag)
    g = stats.get("gen-default", {})
    cov.update({
        "trusted_base": TRUSTED_COMMON + ["hook H2 (individual passes callable under cfg pest_parser_pest_verif)"],
        "evaluations": sum(c.n for c in allcs),
        "distinct_nontrivial": sum(s.get("distinct_nontrivial", 0) for s in stats.values()),
        "rule": "syntactic tie: for seeded random rule sets (guarded grammars plus shaped/unguarded rules that trigger every rewrite: left-nested ~ and |, the skip idiom with inlined rules, bounded repetitions incl. zero counts, string concatenation in atomic rules, the three factorings, the lister pattern, stack operations under ?, |, * and through rule references incl. cycles) each of rotate, skip, unroll, concatenate, factor, list, the whole optimize and optimize-without-list is run for real (hook H2) and its output compared AS A TREE with the Lean pass; semantic search: for guarded grammars the reference denotation of the grammar and of its image under each pass are compared on ALL inputs up to 3 (quick) / 5 (thorough) characters; non-trivial = distinct (pass, rule set) where the pass changed something",
        "traces_validated_against_impl": sum(c.n for c in allcs),
        "samples": [x[:300] for x in g.get("samples", [])][:3],
        "distribution": dict({k: {kk: vv for kk, vv in v.items() if kk != "samples"} for k, v in stats.items()}, real_vm_on_idiom_grammars=vm_stats),
        "mismatches": sum(len(c.mismatch) for c in allcs),
    })
    ctx.evidence(level_of(ctx.prop), cov, [
        "meaning = PestModel.Ref (reference denotation); RestoreOnErr e means e there; unroll is meaning-preserving by definition of the reference (bounded repetitions mean their unrolled forms, DESIGN §10 I1)",
        "the restorer's contribution (an expression that fails leaves the stack unmodified for the next alternative) is checked on the implementation by C01 (Vm::parse vs reference on grammars with stack operations)",
    ])


def replay(ctx, path):
    r = json.load(open(path))
    if r.get("leg") == "vm-idioms":
        return replay_generic(ctx, path, "drv_sem", MODE, featureset="default")
    return replay_generic(ctx, path, DRV, MODE, featureset=("extras" if r.get("features") == "extras" else "default"))
