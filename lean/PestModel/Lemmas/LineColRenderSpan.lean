import PestModel.Lemmas.LineColSpan
import PestModel.Lemmas.LineColRender
namespace PestModel.LineCol

theorem lineCol_boundary (pre post : Str) :
    lineCol (pre ++ post) (bLen pre) = some (lineColSpecChars pre) := by
  simp [lineCol_eq_spec, lineColSpec, splitAt_append]

theorem skipBack1_boundary (pre post : Str) :
    skipBack1 (pre ++ post) (bLen pre) = some (bLen pre.dropLast) := by
  unfold skipBack1
  rw [splitAt_append]
  induction pre using snocInd with
  | nil => simp
  | snoc xs x _ => simp

theorem linesSpanGo_sliceable (s : Str) (b fuel pos : Nat) :
    ∀ p ∈ linesSpanGo s b fuel pos, spanNew s p.1 p.2 = true := by
  induction fuel generalizing pos with
  | zero => simp [linesSpanGo]
  | succ fuel ih =>
    intro p hp
    rw [linesSpanGo] at hp
    split at hp
    · simp at hp
    split at hp
    · simp at hp
    split at hp
    · simp at hp
    simp only at hp
    split at hp
    · simp only [List.mem_cons] at hp
      rcases hp with rfl | hp
      · assumption
      · exact ih _ p hp
    · simp at hp

theorem mapM_slice_some (s : Str) (l : List (Nat × Nat))
    (h : ∀ p ∈ l, spanNew s p.1 p.2 = true) :
    ∃ r, l.mapM (fun x => slice? s x.1 x.2) = some r ∧ r.length = l.length := by
  induction l with
  | nil => exact ⟨[], by simp, rfl⟩
  | cons p ps ih =>
    obtain ⟨r, hr, hlen⟩ := ih (fun q hq => h q (by simp [hq]))
    have hp := h p (by simp)
    unfold spanNew at hp
    obtain ⟨m, hm⟩ := Option.isSome_iff_exists.1 hp
    exact ⟨m :: r, by simp [List.mapM_cons, hm, hr], by simp [hlen]⟩

theorem linesSpan_point_length (pre post : Str) :
    (linesSpan (pre ++ post) (bLen pre) (bLen pre)).length ≤ 1 := by
  unfold linesSpan
  by_cases hpost : post = []
  · subst hpost
    have : bLen pre = bLen (pre ++ []) := by simp
    rw [this, linesSpanGo_end]; simp
  · have hdec := linePre_append_lineHead pre
    have hlen : bLen (linePre pre) + bLen (lineHead pre) = bLen pre := by
      rw [← bLen_append, hdec]
    have := linesSpanGo_step (linePre_closed pre) (lineHead_no_nl pre) hpost
      (b := bLen pre) (by omega) (bLen (pre ++ post))
    rw [hdec, hlen] at this
    rw [this, linesSpanGo_gt (by have := lineTail_pos hpost; omega)]
    simp

theorem lineColSpecChars_snd_pos (pre : Str) : 1 ≤ (lineColSpecChars pre).2 := by
  simp [lineColSpecChars]

theorem lineColSpecChars_fst_mono (pre m : Str) :
    (lineColSpecChars pre).1 ≤ (lineColSpecChars (pre ++ m)).1 := by
  simp [lineColSpecChars]

theorem format_span (e : Err) (sl sc el ec : Nat) (h : e.lineCol = .span (sl, sc) (el, ec))
    (hsc : 1 ≤ sc) (hec : 2 ≤ ec) (hcont : e.continued.isSome → sl ≤ el) :
    ∃ out, e.format = some out := by
  have hu : ∃ u, e.underline = some u := by
    unfold Err.underline
    simp only [Err.start, h]
    by_cases hgt : sc > ec
    · have h0 : ¬ ec = 0 := by omega
      have h1 : ¬ ec - 1 = 0 := by omega
      have h2 : ¬ sc + 1 < ec - 1 := by omega
      simp only [hgt, h0, h1, h2, if_true, if_false]
      split <;> exact ⟨_, rfl⟩
    · have h1 : ¬ sc = 0 := by omega
      simp only [hgt, h1, if_false]
      split <;> exact ⟨_, rfl⟩
  obtain ⟨u, hu⟩ := hu
  unfold Err.format
  simp only [hu, Err.start, h, Option.bind_eq_bind, Option.bind_some, Option.pure_def]
  cases hc : e.continued with
  | none => exact ⟨_, rfl⟩
  | some cont =>
    have := hcont (by simp [hc])
    simp only
    rw [if_neg (by omega)]
    exact ⟨_, rfl⟩

theorem getLast?_tail_isSome {α : Type} {l : List α} (h : l.tail.getLast?.isSome) : 2 ≤ l.length := by
  match l with
  | [] => simp at h
  | [_] => simp at h
  | _ :: _ :: _ => simp

theorem dropLast_append_getLast?_toList {α : Type} (l : List α) :
    l.dropLast ++ l.getLast?.toList = l := by
  induction l using snocInd with
  | nil => rfl
  | snoc xs x _ => simp

theorem newFromSpan_boundary (preA m postB msg : Str) :
    ∃ e sl sc el ec, newFromSpan (preA ++ m ++ postB) (bLen preA) (bLen preA + bLen m) msg = some e ∧
      e.lineCol = .span (sl, sc) (el, ec) ∧ 1 ≤ sc ∧ 2 ≤ ec ∧ (e.continued.isSome → sl ≤ el) := by
  have hB : lineCol (preA ++ m ++ postB) (bLen preA + bLen m) = some (lineColSpecChars (preA ++ m)) := by
    rw [← bLen_append]; exact lineCol_boundary _ _
  have hA : lineCol (preA ++ m ++ postB) (bLen preA) = some (lineColSpecChars preA) := by
    rw [List.append_assoc]; exact lineCol_boundary _ _
  have hS : slice? (preA ++ m ++ postB) (bLen preA) (bLen preA + bLen m) = some m :=
    slice_append _ _ _
  have hSk : skipBack1 (preA ++ m ++ postB) (bLen preA + bLen m) = some (bLen (preA ++ m).dropLast) := by
    rw [← bLen_append]; exact skipBack1_boundary _ _
  have hV : lineCol (preA ++ m ++ postB) (bLen (preA ++ m).dropLast)
      = some (lineColSpecChars (preA ++ m).dropLast) := by
    have : preA ++ m ++ postB = (preA ++ m).dropLast ++ ((preA ++ m).getLast?.toList ++ postB) := by
      rw [← List.append_assoc, dropLast_append_getLast?_toList]
    rw [this]; exact lineCol_boundary _ _
  obtain ⟨ls, hM, hlen⟩ := mapM_slice_some (preA ++ m ++ postB)
    (linesSpan (preA ++ m ++ postB) (bLen preA) (bLen preA + bLen m))
    (linesSpanGo_sliceable _ _ _ _)
  -- line ordering
  have hord : ∀ c : Option Str, c.isSome → c = ls.tail.getLast? ∨ c = ls.tail.getLast?.map visualizeWs →
      (lineColSpecChars preA).1 ≤ (lineColSpecChars (preA ++ m)).1 ∧
      (lineColSpecChars preA).1 ≤ (lineColSpecChars (preA ++ m).dropLast).1 := by
    intro c hc hcl
    have h2 : 2 ≤ ls.length := by
      apply getLast?_tail_isSome
      rcases hcl with rfl | rfl
      · exact hc
      · simpa using hc
    refine ⟨lineColSpecChars_fst_mono _ _, ?_⟩
    by_cases hm : m = []
    · subst hm
      have := linesSpan_point_length preA postB
      simp only [List.append_nil, bLen_nil, Nat.add_zero] at hlen
      omega
    · rw [List.dropLast_append_of_ne_nil hm]
      exact lineColSpecChars_fst_mono _ _
  unfold newFromSpan
  simp only [Option.bind_eq_bind, Option.pure_def, hB, hA, hS, hSk, hV, hM, Option.bind_some]
  split
  · refine ⟨_, _, _, _, _, rfl, rfl, lineColSpecChars_snd_pos _, ?_, ?_⟩
    · have := lineColSpecChars_snd_pos (preA ++ m).dropLast; omega
    intro hc
    refine (hord _ hc ?_).2
    dsimp only
    split
    · exact Or.inl rfl
    · exact Or.inr rfl
  · rename_i hne
    refine ⟨_, _, _, _, _, rfl, rfl, lineColSpecChars_snd_pos _, ?_, ?_⟩
    · show 2 ≤ (lineColSpecChars (preA ++ m)).2; have := lineColSpecChars_snd_pos (preA ++ m); omega
    intro hc
    refine (hord _ hc ?_).1
    dsimp only
    split
    · exact Or.inl rfl
    · exact Or.inr rfl

end PestModel.LineCol
