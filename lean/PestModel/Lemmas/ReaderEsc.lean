import PestModel.Model.Reader
/-! helper lemmas for C07: `unescape` against `spell`. -/
namespace PestModel.Reader
open PestModel.LineCol (Str)

theorem hexDigit_facts : ∀ up : Bool, ∀ n, n < 16 →
    hexVal (hexDigit up n) = some n ∧ (hexDigit up n).utf8Size = 1 ∧
      hexDigit up n ≠ '+' ∧ hexDigit up n ≠ '}' := by
  decide

theorem charOfNat?_toNat (c : Char) : charOfNat? c.toNat = some c := by
  unfold charOfNat?
  have h : c.toNat.isValidChar := c.valid
  simp only [h, Char.ofNatAux, dite_true]
  congr 1

/-- every element of `hexDigits up k v` is a hex digit. -/
theorem mem_hexDigits {up : Bool} : ∀ {k v : Nat} {c : Char}, c ∈ hexDigits up k v → ∃ n, n < 16 ∧ c = hexDigit up n
  | 0, _, _, h => by simp [hexDigits] at h
  | k + 1, v, c, h => by
    simp only [hexDigits, List.mem_append, List.mem_singleton] at h
    rcases h with h | h
    · exact mem_hexDigits h
    · exact ⟨v % 16, Nat.mod_lt _ (by decide), h⟩

theorem length_hexDigits (up : Bool) : ∀ k v, (hexDigits up k v).length = k
  | 0, _ => rfl
  | k + 1, v => by simp [hexDigits, length_hexDigits up k]

theorem utf8Len_append (a b : Str) : utf8Len (a ++ b) = utf8Len a + utf8Len b := by
  simp [utf8Len]

theorem utf8Len_hexDigits (up : Bool) : ∀ k v, utf8Len (hexDigits up k v) = k
  | 0, _ => rfl
  | k + 1, v => by
    rw [hexDigits, utf8Len_append, utf8Len_hexDigits up k]
    simp [utf8Len, (hexDigit_facts up (v % 16) (Nat.mod_lt _ (by decide))).2.1]

theorem foldlM_hexDigits (up : Bool) : ∀ k v acc, v < 16 ^ k →
    (hexDigits up k v).foldlM (fun acc c => (hexVal c).map fun v => acc * 16 + v) acc = some (acc * 16 ^ k + v)
  | 0, v, acc, h => by
    have : v = 0 := by simpa using h
    simp [hexDigits, this]
  | k + 1, v, acc, h => by
    have hv : v / 16 < 16 ^ k := by rw [Nat.pow_succ] at h; omega
    rw [hexDigits, List.foldlM_append, foldlM_hexDigits up k _ _ hv]
    simp [(hexDigit_facts up (v % 16) (Nat.mod_lt _ (by decide))).1, Nat.pow_succ]
    rw [Nat.add_mul, Nat.mul_assoc]
    omega

theorem fromStrRadix16_noPlus {s : Str} (h : ∀ c ∈ s, c ≠ '+') :
    fromStrRadix16 s = if s.isEmpty then none else
      s.foldlM (fun acc c => (hexVal c).map fun v => acc * 16 + v) 0 := by
  unfold fromStrRadix16
  split
  · exact absurd rfl (h '+' (by simp))
  · rfl

theorem fromStrRadix16_hexDigits (up : Bool) (k v : Nat) (hk : 1 ≤ k) (hv : v < 16 ^ k) :
    fromStrRadix16 (hexDigits up k v) = some v := by
  have hne : ∀ c ∈ hexDigits up k v, c ≠ '+' := by
    intro c hc
    obtain ⟨n, hn, rfl⟩ := mem_hexDigits hc
    exact (hexDigit_facts up n hn).2.2.1
  rw [fromStrRadix16_noPlus hne]
  have hlen := length_hexDigits up k v
  have : (hexDigits up k v).isEmpty = false := by
    cases hh : hexDigits up k v with
    | nil => rw [hh] at hlen; simp at hlen; omega
    | cons _ _ => rfl
  simp [this, foldlM_hexDigits up k v 0 hv]

/-! ### one step of `unescapeGo` per spelling form -/

theorem step_plain (f : Nat) (c : Char) (hc : c ≠ '\\') (rest acc : Str) :
    unescapeGo (f + 1) (c :: rest) acc = unescapeGo f rest (c :: acc) := by
  rw [unescapeGo]
  simpa using hc

theorem step_uni (up : Bool) (k v : Nat) (hk : 2 ≤ k ∧ k ≤ 6) (hv : v < 16 ^ k) (f : Nat) (rest acc : Str) :
    unescapeGo (f + 1) (['\\', 'u', '{'] ++ hexDigits up k v ++ ['}'] ++ rest) acc =
      match charOfNat? v with
      | some c => unescapeGo f rest (c :: acc)
      | none => none := by
  have htw : (hexDigits up k v ++ '}' :: rest).takeWhile (· ≠ '}') = hexDigits up k v := by
    rw [List.takeWhile_append_of_pos]
    · simp
    · intro c hc
      obtain ⟨n, hn, rfl⟩ := mem_hexDigits hc
      simpa using (hexDigit_facts up n hn).2.2.2
  have hlen := length_hexDigits up k v
  have hdrop : (hexDigits up k v ++ '}' :: rest).drop (k + 1) = rest := by
    have : k + 1 = (hexDigits up k v ++ ['}']).length := by simp [hlen]
    rw [show hexDigits up k v ++ '}' :: rest = (hexDigits up k v ++ ['}']) ++ rest by simp, this,
      List.drop_left]
  simp only [List.cons_append, List.nil_append, List.append_assoc]
  rw [unescapeGo]
  simp only [htw, utf8Len_hexDigits, fromStrRadix16_hexDigits up k v (by omega) hv, hdrop]
  simp only [hlen, List.length_append, List.length_cons]
  rw [if_neg (by omega), if_neg (by omega)]
  cases charOfNat? v <;> rfl

theorem step_hex (up : Bool) (v : Nat) (hv : v < 256) (f : Nat) (rest acc : Str) :
    unescapeGo (f + 1) (['\\', 'x'] ++ hexDigits up 2 v ++ rest) acc =
      unescapeGo f rest (Char.ofNat v :: acc) := by
  have hlen := length_hexDigits up 2 v
  have htake : (hexDigits up 2 v ++ rest).take 2 = hexDigits up 2 v := by
    rw [List.take_append_of_le_length (by omega), List.take_of_length_le (by omega)]
  have hdrop : (hexDigits up 2 v ++ rest).drop 2 = rest := by
    have := List.drop_left (l₁ := hexDigits up 2 v) (l₂ := rest)
    rwa [hlen] at this
  simp only [List.cons_append, List.nil_append]
  rw [unescapeGo]
  simp only [htake, hdrop, utf8Len_hexDigits, fromStrRadix16_hexDigits up 2 v (by omega) (by omega)]
  simp [hv]

theorem step_spell (quote : Char) (sp : Spelling) (c : Char) (a : Str) (h : spell quote sp c = some a)
    (f : Nat) (rest acc : Str) :
    unescapeGo (f + 1) (a ++ rest) acc = unescapeGo f rest (c :: acc) := by
  cases sp with
  | plain =>
    simp only [spell] at h
    split at h
    · cases h
    · cases h
      rename_i hc
      exact step_plain f c (fun e => hc (Or.inr e)) rest acc
  | named =>
    simp only [spell] at h
    repeat' split at h
    all_goals (cases h; try (subst_vars; simp [unescapeGo]))
  | hex up =>
    simp only [spell] at h
    split at h
    · cases h
      rename_i hc
      rw [step_hex up c.toNat hc, Char.ofNat_toNat]
    · cases h
  | uni k up =>
    simp only [spell] at h
    split at h
    · cases h
      rename_i hc
      rw [step_uni up k c.toNat ⟨hc.1, hc.2.1⟩ hc.2.2, charOfNat?_toNat]
    · cases h

theorem length_spell (quote : Char) (sp : Spelling) (c : Char) (a : Str) (h : spell quote sp c = some a) :
    1 ≤ a.length := by
  cases sp <;> simp only [spell] at h <;> repeat' split at h
  all_goals (cases h; try simp)

theorem spellAll_go (quote : Char) : ∀ (sps : List Spelling) (s cs : Str), spellAll quote sps s = some cs →
    sps.length ≤ cs.length ∧ ∀ k acc, unescapeGo (sps.length + 1 + k) cs acc = some (acc.reverse ++ s)
  | [], [], cs, h => by
    simp only [spellAll] at h
    cases h
    refine ⟨by simp, fun k acc => ?_⟩
    rw [show [].length + 1 + k = k + 1 by simp; omega, unescapeGo]
    simp
  | [], _ :: _, cs, h => by simp [spellAll] at h
  | _ :: _, [], cs, h => by simp [spellAll] at h
  | sp :: sps, c :: s, cs, h => by
    simp only [spellAll] at h
    split at h
    · rename_i a b ha hb
      cases h
      have ih := spellAll_go quote sps s b hb
      have hl := length_spell quote sp c a ha
      refine ⟨by simp; omega, fun k acc => ?_⟩
      rw [show (sp :: sps).length + 1 + k = (sps.length + 1 + k) + 1 by simp; omega,
        step_spell quote sp c a ha, ih.2]
      simp
    · cases h

theorem unescape_spellAll (quote : Char) (sps : List Spelling) (s cs : Str)
    (h : spellAll quote sps s = some cs) : unescape cs = some s := by
  obtain ⟨hl, hgo⟩ := spellAll_go quote sps s cs h
  unfold unescape
  have := hgo (cs.length - sps.length) []
  rw [show sps.length + 1 + (cs.length - sps.length) = cs.length + 1 by omega] at this
  simpa using this

theorem unescape_uni (up : Bool) (k v : Nat) (hk : 2 ≤ k ∧ k ≤ 6) (hv : v < 16 ^ k) :
    unescape (['\\', 'u', '{'] ++ hexDigits up k v ++ ['}']) = (charOfNat? v).map fun c => [c] := by
  unfold unescape
  have := step_uni up k v hk hv (['\\', 'u', '{'] ++ hexDigits up k v ++ ['}']).length [] []
  rw [List.append_nil] at this
  rw [this]
  cases charOfNat? v with
  | none => rfl
  | some c => simp [unescapeGo]

end PestModel.Reader
