import PestModel.Lemmas.ValidatorNp
/-! C06 helper lemmas, part 4: `leftRecursion … = []` makes the graph of visited rule references
well founded. The nodes of the graph are (rule, skipping inside it) pairs; besides the rule references
the check visits, it has the implicit `WHITESPACE`/`COMMENT` calls behind a sequence head — or behind
the first copy of a bounded repetition — that may match nothing (where skipping is on). The name graph
(rule references only) of an accepted grammar is acyclic as well: a cycle of names lifts to a cycle of
pairs, because a chain of references changes the skipping flag by the identity or a constant. -/
namespace PestModel.V
open PestModel.G
open PestModel.LineCol (Str)

/-- a node of the left-recursion graph: a rule and whether implicit skips run inside it. -/
abbrev Key := String × Bool

/-- the pair entered for `n` from a place where skipping is `sk`. -/
abbrev key (rules : List Rule) (sk : Bool) (n : String) : Key := (n, skipsInside rules n sk)

/-- the implicit rules the grammar defines. -/
def wsNames (rules : List Rule) : List String :=
  (if (lookup rules "WHITESPACE").isSome then ["WHITESPACE"] else []) ++
  (if (lookup rules "COMMENT").isSome then ["COMMENT"] else [])

/-- the names `check_expr` enters in `e` (inside the body of rule `cur`, skipping `sk`), without
entering rules: the identifiers of `lm`, plus the implicit calls. -/
def lmS (extras : Bool) (rules : List Rule) (cur : String) (sk : Bool) : Expr → List String
  | .ident n => [n]
  | .seq a b =>
    if cross rules cur a then
      lmS extras rules cur sk a ++ ((if sk then wsNames rules else []) ++ lmS extras rules cur sk b)
    else lmS extras rules cur sk a
  | .choice a b => lmS extras rules cur sk a ++ lmS extras rules cur sk b
  | .rep e | .repOnce e | .opt e | .posPred e | .negPred e | .push e => lmS extras rules cur sk e
  | .repMin e _ => lmS extras rules cur sk e
  | .repExact e n =>
    lmS extras rules cur sk e ++ (if decide (2 ≤ n) && cross rules cur e && sk then wsNames rules else [])
  | .repMax e n => lmS extras rules cur sk e ++ (if decide (2 ≤ n) && sk then wsNames rules else [])
  | .repMinMax e lo hi =>
    lmS extras rules cur sk e ++
      (if decide (2 ≤ hi) && (lo == 0 || cross rules cur e) && sk then wsNames rules else [])
  | .nodeTag e _ => if extras then lmS extras rules cur sk e else []
  | _ => []

theorem lm_sub_lmS (extras : Bool) (rules : List Rule) (cur : String) (sk : Bool) :
    ∀ e : Expr, ∀ n ∈ lm extras rules cur e, n ∈ lmS extras rules cur sk e := by
  intro e
  induction e with
  | seq a b iha ihb =>
    intro n hn
    simp only [lm, lmS] at hn ⊢
    split at hn
    · rename_i hx
      rw [if_pos hx]
      rcases List.mem_append.1 hn with h | h
      · exact List.mem_append_left _ (iha n h)
      · exact List.mem_append_right _ (List.mem_append_right _ (ihb n h))
    · rename_i hx
      rw [if_neg hx]
      exact iha n hn
  | choice a b iha ihb =>
    intro n hn
    simp only [lm, lmS] at hn ⊢
    rcases List.mem_append.1 hn with h | h
    · exact List.mem_append_left _ (iha n h)
    · exact List.mem_append_right _ (ihb n h)
  | rep a ih | repOnce a ih | opt a ih | posPred a ih | negPred a ih | push a ih | repMin a k ih =>
    intro n hn
    simp only [lm, lmS] at hn ⊢
    exact ih n hn
  | repExact a k ih | repMax a k ih | repMinMax a lo hi ih =>
    intro n hn
    simp only [lm, lmS] at hn ⊢
    exact List.mem_append_left _ (ih n hn)
  | nodeTag a t ih =>
    intro n hn
    simp only [lm, lmS] at hn ⊢
    cases extras
    · simp at hn
    · simp only [if_true] at hn ⊢
      exact ih n hn
  | ident m => intro n hn; simpa [lm, lmS] using hn
  | _ => intro n hn; simp [lm] at hn

/-- edge of the name graph: `b` is looked at in the body of rule `a`. -/
def E (extras : Bool) (rules : List Rule) (a b : String) : Prop :=
  ∃ body, lookup rules a = some body ∧ b ∈ lm extras rules a body

/-- `n` is entered from the body of rule `a` when skipping inside `a` is `sk`. -/
def ES (extras : Bool) (rules : List Rule) (a : String) (sk : Bool) (n : String) : Prop :=
  ∃ body, lookup rules a = some body ∧ n ∈ lmS extras rules a sk body

/-- edge of the left-recursion graph. -/
def E2 (extras : Bool) (rules : List Rule) (a b : Key) : Prop :=
  ∃ n, ES extras rules a.1 a.2 n ∧ b = key rules a.2 n

/-! ### the fuel budget on pairs -/

def rem2 : List Rule → List Key → Nat
  | [], _ => 0
  | r :: rs, T =>
    (if T.contains (r.name, true) then 0 else r.expr.size + 1) +
      (if T.contains (r.name, false) then 0 else r.expr.size + 1) + rem2 rs T

theorem rem2_mono (rules : List Rule) {T T' : List Key} (h : ∀ x ∈ T, x ∈ T') : rem2 rules T' ≤ rem2 rules T := by
  induction rules with
  | nil => simp [rem2]
  | cons r rs ih =>
    simp only [rem2]
    have key : ∀ b : Bool, (if T'.contains (r.name, b) then 0 else r.expr.size + 1) ≤
        (if T.contains (r.name, b) then 0 else r.expr.size + 1) := by
      intro b
      by_cases h1 : (r.name, b) ∈ T
      · have h2 := h _ h1
        simp [h1, h2]
      · by_cases h2 : (r.name, b) ∈ T'
        · simp [h2]
        · simp [h1, h2]
    have := key true
    have := key false
    omega

theorem rem2_step {rules : List Rule} {T : List Key} {n : String} {b : Bool} {body : Expr}
    (hl : lookup rules n = some body) (hn : (n, b) ∉ T) : body.size + 1 + rem2 rules (T ++ [(n, b)]) ≤ rem2 rules T := by
  induction rules with
  | nil => simp [lookup] at hl
  | cons r rs ih =>
    simp only [rem2]
    have hm : rem2 rs (T ++ [(n, b)]) ≤ rem2 rs T := rem2_mono rs (fun x hx => List.mem_append_left _ hx)
    have key : ∀ b' : Bool, (if (T ++ [(n, b)]).contains (r.name, b') then 0 else r.expr.size + 1) ≤
        (if T.contains (r.name, b') then 0 else r.expr.size + 1) := by
      intro b'
      by_cases h1 : (r.name, b') ∈ T
      · simp [h1]
      · by_cases h2 : (r.name, b') ∈ T ++ [(n, b)]
        · simp [h2]
        · simp [h1, h2]
    by_cases hr : r.name = n
    · have hb : r.expr = body := by
        simp [lookup, hr] at hl
        exact hl
      subst hr
      have h1 : (if T.contains (r.name, b) then 0 else r.expr.size + 1) = r.expr.size + 1 := by simp [hn]
      have h2 : (if (T ++ [(r.name, b)]).contains (r.name, b) then 0 else r.expr.size + 1) = 0 := by simp
      have k1 := key true
      have k2 := key false
      rw [← hb]
      cases b <;> omega
    · have hl' : lookup rs n = some body := by
        simp only [lookup, List.find?_cons, hr, decide_false] at hl ⊢
        exact hl
      have := ih hl'
      have k1 := key true
      have k2 := key false
      omega

theorem rem2_le (rules : List Rule) (T : List Key) : rem2 rules T ≤ 2 * rem rules [] := by
  induction rules with
  | nil => simp [rem2, rem]
  | cons r rs ih =>
    simp only [rem2, rem]
    have h1 : (if T.contains (r.name, true) then 0 else r.expr.size + 1) ≤ r.expr.size + 1 := by split <;> omega
    have h2 : (if T.contains (r.name, false) then 0 else r.expr.size + 1) ≤ r.expr.size + 1 := by split <;> omega
    have h3 : (if ([] : List String).contains r.name then 0 else r.expr.size + 1) = r.expr.size + 1 := by simp
    rw [h3]
    omega

theorem rem2_lt_rulesSize (rules : List Rule) (T : List Key) : rem2 rules T + 2 ≤ 2 * rulesSize rules := by
  have h1 := rem2_le rules T
  have h2 := rem_lt_rulesSize rules []
  omega

/-! ### unfolding `checkExpr` -/

/-- what `check_expr` does with a rule it is about to enter. -/
def enterF (extras : Bool) (rules : List Rule) (G : Nat) (T : List Key) (sk : Bool) (other : String) : Bool :=
  checkExpr extras rules (G + 1) (.ident other) T sk

theorem checkExpr_ident (extras : Bool) (rules : List Rule) (G : Nat) (T : List Key) (sk : Bool) (n : String) :
    checkExpr extras rules (G + 1) (.ident n) T sk = enterF extras rules G T sk n := rfl

theorem enterF_head {extras : Bool} {rules : List Rule} {G : Nat} {T : List Key} {sk : Bool} {n : String}
    (h : T.head? = some (n, skipsInside rules n sk)) : enterF extras rules G T sk n = true := by
  simp [enterF, checkExpr, h]

theorem enterF_step {extras : Bool} {rules : List Rule} {G : Nat} {T : List Key} {sk : Bool} {n : String} {body : Expr}
    (hn : (n, skipsInside rules n sk) ∉ T) (hl : lookup rules n = some body) :
    enterF extras rules G T sk n =
      checkExpr extras rules G body (T ++ [(n, skipsInside rules n sk)]) (skipsInside rules n sk) := by
  have hh : T.head? ≠ some (n, skipsInside rules n sk) := fun hh => hn (List.mem_of_mem_head? hh)
  simp only [enterF, checkExpr, hh, if_false, List.contains_eq_mem, hn, decide_false, Bool.not_false, if_true, hl]

/-- the implicit skip at this position. -/
def implF (extras : Bool) (rules : List Rule) (G : Nat) (T : List Key) (sk : Bool) : Bool :=
  sk && ((lookup rules "WHITESPACE").isSome && enterF extras rules G T sk "WHITESPACE" ||
         (lookup rules "COMMENT").isSome && enterF extras rules G T sk "COMMENT")

theorem checkExpr_seq (extras : Bool) (rules : List Rule) (G : Nat) {T : List Key} (sk : Bool) (a b : Expr)
    {cur : String} {skc : Bool} (hT : T.getLast? = some (cur, skc)) :
    checkExpr extras rules (G + 1) (.seq a b) T sk =
      if cross rules cur a then
        checkExpr extras rules G a T sk || implF extras rules G T sk || checkExpr extras rules G b T sk
      else checkExpr extras rules G a T sk := by
  simp only [checkExpr, enterF, implF, hT, Option.map_some, Option.toList_some, cross]

theorem checkExpr_repExact (extras : Bool) (rules : List Rule) (G : Nat) {T : List Key} (sk : Bool) (e : Expr) (n : Nat)
    {cur : String} {skc : Bool} (hT : T.getLast? = some (cur, skc)) :
    checkExpr extras rules (G + 1) (.repExact e n) T sk =
      (checkExpr extras rules G e T sk || (decide (2 ≤ n) && cross rules cur e && implF extras rules G T sk)) := by
  simp only [checkExpr, enterF, implF, hT, Option.map_some, Option.toList_some, cross]

theorem checkExpr_repMax (extras : Bool) (rules : List Rule) (G : Nat) (T : List Key) (sk : Bool) (e : Expr) (n : Nat) :
    checkExpr extras rules (G + 1) (.repMax e n) T sk =
      (checkExpr extras rules G e T sk || (decide (2 ≤ n) && implF extras rules G T sk)) := by
  simp only [checkExpr, enterF, implF]

theorem checkExpr_repMinMax (extras : Bool) (rules : List Rule) (G : Nat) {T : List Key} (sk : Bool) (e : Expr)
    (lo hi : Nat) {cur : String} {skc : Bool} (hT : T.getLast? = some (cur, skc)) :
    checkExpr extras rules (G + 1) (.repMinMax e lo hi) T sk =
      (checkExpr extras rules G e T sk ||
        (decide (2 ≤ hi) && (lo == 0 || cross rules cur e) && implF extras rules G T sk)) := by
  simp only [checkExpr, enterF, implF, hT, Option.map_some, Option.toList_some, cross]

theorem checkExpr_seq' (extras : Bool) (rules : List Rule) (G : Nat) (T : List Key) (sk : Bool) (a b : Expr) :
    checkExpr extras rules (G + 1) (.seq a b) T sk =
      if isNonFailing rules (fuelFor rules a) a (T.getLast?.map (·.1)).toList ||
          isNonProgressing rules (fuelFor rules a) a (T.getLast?.map (·.1)).toList then
        checkExpr extras rules G a T sk || implF extras rules G T sk || checkExpr extras rules G b T sk
      else checkExpr extras rules G a T sk := by
  simp only [checkExpr, enterF, implF]

theorem checkExpr_repExact' (extras : Bool) (rules : List Rule) (G : Nat) (T : List Key) (sk : Bool) (e : Expr) (n : Nat) :
    checkExpr extras rules (G + 1) (.repExact e n) T sk =
      (checkExpr extras rules G e T sk ||
        (decide (2 ≤ n) &&
          (isNonFailing rules (fuelFor rules e) e (T.getLast?.map (·.1)).toList ||
            isNonProgressing rules (fuelFor rules e) e (T.getLast?.map (·.1)).toList) &&
          implF extras rules G T sk)) := by
  simp only [checkExpr, enterF, implF]

theorem checkExpr_repMinMax' (extras : Bool) (rules : List Rule) (G : Nat) (T : List Key) (sk : Bool) (e : Expr)
    (lo hi : Nat) :
    checkExpr extras rules (G + 1) (.repMinMax e lo hi) T sk =
      (checkExpr extras rules G e T sk ||
        (decide (2 ≤ hi) &&
          (lo == 0 || (isNonFailing rules (fuelFor rules e) e (T.getLast?.map (·.1)).toList ||
            isNonProgressing rules (fuelFor rules e) e (T.getLast?.map (·.1)).toList)) &&
          implF extras rules G T sk)) := by
  simp only [checkExpr, enterF, implF]

theorem implF_of_mem {extras : Bool} {rules : List Rule} {G : Nat} {T : List Key} {n : String}
    (hn : n ∈ wsNames rules) (h1 : enterF extras rules G T true n = true) : implF extras rules G T true = true := by
  simp only [wsNames, List.mem_append] at hn
  rcases hn with hn | hn
  · split at hn
    · rename_i hW
      simp only [List.mem_singleton] at hn
      subst hn
      simp [implF, h1, hW]
    · simp at hn
  · split at hn
    · rename_i hW
      simp only [List.mem_singleton] at hn
      subst hn
      simp [implF, h1, hW]
    · simp at hn

/-- `check_expr` answers `true` with any adequate fuel. -/
def CT (extras : Bool) (rules : List Rule) (e : Expr) (T : List Key) (sk : Bool) : Prop :=
  ∀ F, e.size + rem2 rules T ≤ F → checkExpr extras rules F e T sk = true

section
variable {extras : Bool} {rules : List Rule}

theorem ct_ident_head {T : List Key} {n : String} {sk : Bool} (h : T.head? = some (key rules sk n)) :
    CT extras rules (.ident n) T sk := by
  intro F hF
  obtain ⟨G, rfl⟩ : ∃ G, F = G + 1 := ⟨F - 1, by simp [Expr.size] at hF; omega⟩
  rw [checkExpr_ident]
  exact enterF_head h

theorem ct_ident_step {T : List Key} {n : String} {sk : Bool} {body : Expr} (hn : key rules sk n ∉ T)
    (hl : lookup rules n = some body)
    (h : CT extras rules body (T ++ [key rules sk n]) (skipsInside rules n sk)) : CT extras rules (.ident n) T sk := by
  intro F hF
  obtain ⟨G, rfl⟩ : ∃ G, F = G + 1 := ⟨F - 1, by simp [Expr.size] at hF; omega⟩
  have := rem2_step hl hn
  simp only [Expr.size] at hF
  rw [checkExpr_ident, enterF_step hn hl]
  refine h G ?_
  show body.size + rem2 rules (T ++ [(n, skipsInside rules n sk)]) ≤ G
  omega

theorem ct_sub {T : List Key} {cur n : String} {skc sk : Bool} (hT : T.getLast? = some (cur, skc))
    (hc : CT extras rules (.ident n) T sk) :
    ∀ e : Expr, n ∈ lmS extras rules cur sk e → CT extras rules e T sk := by
  intro e
  induction e with
  | ident m => intro hn; simp only [lmS, List.mem_singleton] at hn; subst hn; exact hc
  | seq a b iha ihb =>
    intro hn F hF
    obtain ⟨G, rfl⟩ : ∃ G, F = G + 1 := ⟨F - 1, by simp [Expr.size] at hF; omega⟩
    simp only [Expr.size] at hF
    simp only [lmS] at hn
    rw [checkExpr_seq extras rules G sk a b hT]
    cases hx : cross rules cur a with
    | true =>
      simp only [hx, if_true, List.mem_append] at hn ⊢
      rcases hn with hn | hn | hn
      · simp [iha hn G (by omega)]
      · cases sk with
        | false => simp at hn
        | true =>
          simp only [if_true] at hn
          have h1 := hc (G + 1) (by simp only [Expr.size]; omega)
          rw [checkExpr_ident] at h1
          simp [implF_of_mem hn h1]
      · simp [ihb hn G (by omega)]
    | false =>
      simp only [hx, Bool.false_eq_true, if_false] at hn ⊢
      exact iha hn G (by omega)
  | choice a b iha ihb =>
    intro hn F hF
    obtain ⟨G, rfl⟩ : ∃ G, F = G + 1 := ⟨F - 1, by simp [Expr.size] at hF; omega⟩
    simp only [Expr.size] at hF
    simp only [lmS, List.mem_append] at hn
    simp only [checkExpr]
    rcases hn with hn | hn
    · simp [iha hn G (by omega)]
    · simp [ihb hn G (by omega)]
  | rep a ih | repOnce a ih | opt a ih | posPred a ih | negPred a ih | push a ih | repMin a k ih =>
    intro hn F hF
    obtain ⟨G, rfl⟩ : ∃ G, F = G + 1 := ⟨F - 1, by simp [Expr.size] at hF; omega⟩
    simp only [Expr.size] at hF
    simp only [lmS] at hn
    simp only [checkExpr]
    exact ih hn G (by omega)
  | repExact a k ih =>
    intro hn F hF
    obtain ⟨G, rfl⟩ : ∃ G, F = G + 1 := ⟨F - 1, by simp [Expr.size] at hF; omega⟩
    simp only [Expr.size] at hF
    simp only [lmS, List.mem_append] at hn
    rw [checkExpr_repExact extras rules G sk a k hT]
    rcases hn with hn | hn
    · simp [ih hn G (by omega)]
    · split at hn
      · rename_i hcond
        simp only [Bool.and_eq_true] at hcond
        obtain ⟨⟨h2, hx⟩, hsk⟩ := hcond
        subst hsk
        have h1 := hc (G + 1) (by simp only [Expr.size]; omega)
        rw [checkExpr_ident] at h1
        simp [implF_of_mem hn h1, h2, hx]
      · simp at hn
  | repMax a k ih =>
    intro hn F hF
    obtain ⟨G, rfl⟩ : ∃ G, F = G + 1 := ⟨F - 1, by simp [Expr.size] at hF; omega⟩
    simp only [Expr.size] at hF
    simp only [lmS, List.mem_append] at hn
    rw [checkExpr_repMax]
    rcases hn with hn | hn
    · simp [ih hn G (by omega)]
    · split at hn
      · rename_i hcond
        simp only [Bool.and_eq_true] at hcond
        obtain ⟨h2, hsk⟩ := hcond
        subst hsk
        have h1 := hc (G + 1) (by simp only [Expr.size]; omega)
        rw [checkExpr_ident] at h1
        simp [implF_of_mem hn h1, h2]
      · simp at hn
  | repMinMax a lo hi ih =>
    intro hn F hF
    obtain ⟨G, rfl⟩ : ∃ G, F = G + 1 := ⟨F - 1, by simp [Expr.size] at hF; omega⟩
    simp only [Expr.size] at hF
    simp only [lmS, List.mem_append] at hn
    rw [checkExpr_repMinMax extras rules G sk a lo hi hT]
    rcases hn with hn | hn
    · simp [ih hn G (by omega)]
    · split at hn
      · rename_i hcond
        simp only [Bool.and_eq_true] at hcond
        obtain ⟨⟨h2, hx⟩, hsk⟩ := hcond
        subst hsk
        have h1 := hc (G + 1) (by simp only [Expr.size]; omega)
        rw [checkExpr_ident] at h1
        rw [implF_of_mem hn h1, h2, hx]
        simp
      · simp at hn
  | nodeTag a t ih =>
    intro hn F hF
    obtain ⟨G, rfl⟩ : ∃ G, F = G + 1 := ⟨F - 1, by simp [Expr.size] at hF; omega⟩
    simp only [Expr.size] at hF
    simp only [lmS] at hn
    simp only [checkExpr]
    cases extras
    · simp at hn
    · simp only [if_true] at hn ⊢
      exact ih hn G (by omega)
  | _ => intro hn; simp [lmS] at hn

/-- `a → p₁ → … → pₖ = b` in the graph. -/
def Path (extras : Bool) (rules : List Rule) : Key → List Key → Key → Prop
  | a, [], b => a = b
  | a, p :: ps, b => E2 extras rules a p ∧ Path extras rules p ps b

theorem path_snoc {a b n : Key} {ps : List Key} (h : Path extras rules a ps b) (he : E2 extras rules b n) :
    Path extras rules a (ps ++ [n]) n := by
  induction ps generalizing a with
  | nil => simp only [Path] at h; subst h; exact ⟨he, rfl⟩
  | cons p ps ih => exact ⟨h.1, ih h.2⟩

theorem e2_hasBody {a b : Key} (he : E2 extras rules a b) : ∃ body, lookup rules a.1 = some body := by
  obtain ⟨n, ⟨body, hb, _⟩, _⟩ := he
  exact ⟨body, hb⟩

theorem path_hasBody {a b h : Key} {ps : List Key} (hp : Path extras rules a ps b) (he : E2 extras rules b h) :
    ∃ body, lookup rules a.1 = some body := by
  cases ps with
  | nil => simp only [Path] at hp; subst hp; exact e2_hasBody he
  | cons p ps => exact e2_hasBody hp.1

/-- the check follows a simple path back to the pair under test. -/
theorem follow {cur h : Key} (he : E2 extras rules cur h) :
    ∀ (ps : List Key) (a : Key) (T : List Key) (body : Expr), Path extras rules a ps cur →
      T.getLast? = some a → T.head? = some h → (∀ p ∈ ps, p ∉ T) → ps.Nodup → lookup rules a.1 = some body →
      CT extras rules body T a.2 := by
  intro ps
  induction ps with
  | nil =>
    intro a T body hp hl hh _ _ hb
    simp only [Path] at hp
    subst hp
    obtain ⟨n, ⟨body', hb', hm⟩, hk⟩ := he
    rw [hb] at hb'
    cases hb'
    exact ct_sub (cur := a.1) (skc := a.2) hl (ct_ident_head (by rw [hh, hk])) body hm
  | cons p ps ih =>
    intro a T body hp hl hh hnot hnd hb
    obtain ⟨⟨n, ⟨body', hb', hm⟩, hk⟩, hp2⟩ := hp
    rw [hb] at hb'
    cases hb'
    obtain ⟨bp, hbp⟩ := path_hasBody hp2 he
    have hpT : p ∉ T := hnot p (by simp)
    have h1 : CT extras rules bp (T ++ [p]) p.2 := by
      refine ih p (T ++ [p]) bp hp2 (by simp) ?_ ?_ (List.nodup_cons.1 hnd).2 hbp
      · rw [List.head?_append]; rw [hh]; rfl
      · intro q hq
        simp only [List.mem_append, List.mem_singleton, not_or]
        refine ⟨hnot q (List.mem_cons_of_mem _ hq), ?_⟩
        intro hqp
        subst hqp
        exact (List.nodup_cons.1 hnd).1 hq
    subst hk
    exact ct_sub (cur := a.1) (skc := a.2) hl (ct_ident_step hpT hbp h1) body hm

/-- accepted grammars have no simple cycle. -/
theorem no_simple_cycle (hv : leftRecursion extras rules = []) {h cur : Key} {ps : List Key}
    (hp : Path extras rules h ps cur) (he : E2 extras rules cur h) (hnd : (h :: ps).Nodup) : False := by
  obtain ⟨body, hb⟩ := path_hasBody hp he
  have hct := follow he ps h [h] body hp rfl rfl
    (by intro p hp' hc; simp only [List.mem_singleton] at hc; subst hc; exact (List.nodup_cons.1 hnd).1 hp')
    (List.nodup_cons.1 hnd).2 hb
  obtain ⟨r, hr, hrn, hrb⟩ := lookup_some_mem hb
  obtain ⟨n, _, hk⟩ := he
  subst hrb
  unfold leftRecursion at hv
  rw [List.filterMap_eq_nil_iff] at hv
  have h1 := hv r hr
  have h2 := hct (2 * rulesSize rules + r.expr.size + 2) (by
    have := rem2_lt_rulesSize rules [h]
    omega)
  have hh : h = (r.name, skipsInside rules r.name cur.2) := by
    rw [hk]; simp only [key]; rw [hk] at hrn; simp only at hrn; rw [hrn]
  rw [hh] at h2
  simp only [] at h1
  cases hc : cur.2 with
  | true => rw [hc] at h2; simp only [] at h2; rw [h2] at h1; simp at h1
  | false => rw [hc] at h2; simp only [] at h2; rw [h2] at h1; simp at h1

/-! ### well-foundedness -/

/-- number of pairs not yet on the chain. -/
def cnt : List Key → List Key → Nat
  | [], _ => 0
  | x :: xs, V => (if x ∈ V then 0 else 1) + cnt xs V

theorem cnt_le (L V : List Key) (a : Key) : cnt L (a :: V) ≤ cnt L V := by
  induction L with
  | nil => simp [cnt]
  | cons x xs ih =>
    simp only [cnt, List.mem_cons]
    by_cases h1 : x ∈ V
    · simp [h1, ih]
    · by_cases h2 : x = a
      · simp [h2]; omega
      · simp [h1, h2, ih]

theorem cnt_lt (L V : List Key) (a : Key) (haL : a ∈ L) (haV : a ∉ V) : cnt L (a :: V) < cnt L V := by
  induction L with
  | nil => simp at haL
  | cons x xs ih =>
    simp only [cnt, List.mem_cons]
    by_cases hxa : x = a
    · subst hxa
      have := cnt_le xs V x
      simp [haV]; omega
    · have haxs : a ∈ xs := by
        rcases List.mem_cons.1 haL with h | h
        · exact absurd h.symm hxa
        · exact h
      have := ih haxs
      by_cases h1 : x ∈ V
      · simp [h1, this]
      · simp [h1, hxa, this]

/-- all pairs of defined rules. -/
def allKeys (rules : List Rule) : List Key := rules.flatMap fun r => [(r.name, true), (r.name, false)]

theorem mem_allKeys {p : Key} {body : Expr} (hb : lookup rules p.1 = some body) : p ∈ allKeys rules := by
  obtain ⟨r, hr, hrn, _⟩ := lookup_some_mem hb
  unfold allKeys
  rw [List.mem_flatMap]
  refine ⟨r, hr, ?_⟩
  obtain ⟨a, b⟩ := p
  simp only at hrn
  subst hrn
  cases b <;> simp

/-- the chain invariant of the search for a cycle. -/
def ChainInv (extras : Bool) (rules : List Rule) (V : List Key) (cur : Key) : Prop :=
  cur ∉ V ∧ ∀ h ∈ V, ∃ ps, Path extras rules h ps cur ∧ (h :: ps).Nodup ∧ ∀ p ∈ ps, p ∈ V ∨ p = cur

theorem acc_aux (hv : leftRecursion extras rules = []) :
    ∀ (k : Nat) (V : List Key) (cur : Key), ChainInv extras rules V cur →
      cnt (allKeys rules) V ≤ k → (lookup rules cur.1).isSome = true →
      Acc (fun b a => E2 extras rules a b) cur := by
  intro k
  induction k with
  | zero =>
    intro V cur hinv hk hsome
    obtain ⟨body, hb⟩ := Option.isSome_iff_exists.1 hsome
    have hcur : cur ∈ allKeys rules := mem_allKeys hb
    have := cnt_lt (allKeys rules) V cur hcur hinv.1
    omega
  | succ k ih =>
    intro V cur hinv hk hsome
    obtain ⟨body, hb⟩ := Option.isSome_iff_exists.1 hsome
    refine Acc.intro cur (fun n hE => ?_)
    cases hln : lookup rules n.1 with
    | none =>
      refine Acc.intro n (fun m hm => ?_)
      obtain ⟨b', hb'⟩ := e2_hasBody hm
      rw [hln] at hb'; cases hb'
    | some bn =>
      by_cases hnc : n = cur
      · subst hnc
        exact (no_simple_cycle hv (h := n) (ps := []) (cur := n) rfl hE (by simp)).elim
      by_cases hnV : n ∈ V
      · obtain ⟨ps, hp, hnd, _⟩ := hinv.2 n hnV
        exact (no_simple_cycle hv hp hE hnd).elim
      refine ih (cur :: V) n ⟨?_, ?_⟩ ?_ (by simp [hln])
      · simp [hnc, hnV]
      · intro h hh
        rcases List.mem_cons.1 hh with rfl | hh
        · refine ⟨[n], ⟨hE, rfl⟩, ?_, ?_⟩
          · simp; exact fun hx => hnc hx.symm
          · intro p hp; simp at hp; exact Or.inr hp
        · obtain ⟨ps, hp, hnd, hmem⟩ := hinv.2 h hh
          refine ⟨ps ++ [n], path_snoc hp hE, ?_, ?_⟩
          · have hn_not : n ∉ h :: ps := by
              intro hx
              rcases List.mem_cons.1 hx with rfl | hx
              · exact hnV hh
              · rcases hmem n hx with h1 | h1
                · exact hnV h1
                · exact hnc h1
            rw [← List.cons_append]
            rw [List.nodup_append]
            refine ⟨hnd, by simp, ?_⟩
            intro a ha b hb
            simp only [List.mem_singleton] at hb
            subst hb
            intro hab; subst hab; exact hn_not ha
          · intro p hp
            simp only [List.mem_append, List.mem_singleton] at hp
            rcases hp with hp | hp
            · rcases hmem p hp with h1 | h1
              · exact Or.inl (List.mem_cons_of_mem _ h1)
              · exact Or.inl (by rw [h1]; exact List.mem_cons_self)
            · exact Or.inr hp
      · have hcur : cur ∈ allKeys rules := mem_allKeys hb
        have := cnt_lt (allKeys rules) V cur hcur hinv.1
        omega

/-- **the left-recursion graph of an accepted grammar is well founded.** -/
theorem acc_all (hv : leftRecursion extras rules = []) (p : Key) : Acc (fun b a => E2 extras rules a b) p := by
  cases hl : lookup rules p.1 with
  | none =>
    refine Acc.intro p (fun m hm => ?_)
    obtain ⟨b', hb'⟩ := e2_hasBody hm
    rw [hl] at hb'; cases hb'
  | some body =>
    exact acc_aux hv _ [] p ⟨by simp, by simp⟩ (Nat.le_refl _) (by simp [hl])

theorem acc_irrefl {α : Type} {r : α → α → Prop} {a : α} (h : Acc r a) : ¬ r a a := by
  induction h with
  | intro x _ ih => intro hx; exact ih x hx hx

/-! ### the name graph: every chain of rule references lifts to the pairs -/

theorem skipsInside_cases (rules : List Rule) (n : String) :
    (∀ sk, skipsInside rules n sk = sk) ∨ (∃ k, ∀ sk, skipsInside rules n sk = k) := by
  unfold skipsInside
  split
  · exact Or.inr ⟨false, fun _ => rfl⟩
  · split
    · exact Or.inr ⟨false, fun _ => rfl⟩
    · exact Or.inr ⟨false, fun _ => rfl⟩
    · exact Or.inr ⟨true, fun _ => rfl⟩
    · exact Or.inl (fun _ => rfl)

theorem e_lift {a b : String} (h : E extras rules a b) (sk : Bool) :
    E2 extras rules (a, sk) (b, skipsInside rules b sk) := by
  obtain ⟨body, hb, hm⟩ := h
  exact ⟨b, ⟨body, hb, lm_sub_lmS extras rules a sk body b hm⟩, rfl⟩

/-- a chain of rule references changes the skipping flag by the identity or a constant. -/
theorem transGen_lift {a b : String} (h : Relation.TransGen (fun y x => E extras rules x y) b a) :
    (∀ sk, Relation.TransGen (fun q p => E2 extras rules p q) (b, sk) (a, sk)) ∨
    (∃ k, ∀ sk, Relation.TransGen (fun q p => E2 extras rules p q) (b, k) (a, sk)) := by
  induction h with
  | single hE =>
    rename_i a
    rcases skipsInside_cases rules b with hs | ⟨k, hs⟩
    · left
      intro sk
      have := e_lift hE sk
      rw [hs] at this
      exact .single this
    · right
      refine ⟨k, fun sk => ?_⟩
      have := e_lift hE sk
      rw [hs] at this
      exact .single this
  | tail hchain hE ih =>
    rename_i x a
    -- edge `a → x`, then the chain `x → … → b`
    rcases ih with ih | ⟨k, ih⟩
    · rcases skipsInside_cases rules x with hs | ⟨k, hs⟩
      · left
        intro sk
        have := e_lift hE sk
        rw [hs] at this
        exact .tail (ih sk) this
      · right
        refine ⟨k, fun sk => ?_⟩
        have := e_lift hE sk
        rw [hs] at this
        exact .tail (ih k) this
    · right
      refine ⟨k, fun sk => ?_⟩
      exact .tail (ih _) (e_lift hE sk)

/-- the name graph of an accepted grammar has no cycle. -/
theorem no_name_cycle (hv : leftRecursion extras rules = []) {a : String} :
    ¬ Relation.TransGen (fun y x => E extras rules x y) a a := by
  intro h
  rcases transGen_lift h with h1 | ⟨k, h1⟩
  · exact acc_irrefl (acc_all hv (a, false)).transGen (h1 false)
  · exact acc_irrefl (acc_all hv (a, k)).transGen (h1 k)

/-- reachability along visited positions is a chain of edges. -/
theorem creach_transGen {cur : String} {e : Expr} {id : String}
    (hcl : ∀ n ∈ lm extras rules cur e, E extras rules cur n) (h : CReach extras rules cur e id) :
    Relation.TransGen (fun b a => E extras rules a b) id cur := by
  induction h with
  | direct hm => exact .single (hcl _ hm)
  | step hm hl _ ih =>
    exact .tail (ih (fun n hn => ⟨_, hl, hn⟩)) (hcl _ hm)

/-- no rule reaches itself. -/
theorem no_cycle (hv : leftRecursion extras rules = []) {cur : String} {e : Expr}
    (hcl : ∀ n ∈ lm extras rules cur e, E extras rules cur n) : ¬ CReach extras rules cur e cur := by
  intro h
  exact no_name_cycle hv (creach_transGen hcl h)

end
end PestModel.V
