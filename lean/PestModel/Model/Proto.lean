/-
Line-protocol helpers shared by all driver modes (no Mathlib imports: this is linked
into the `pestmodel` executable).
-/
namespace PestModel.Proto

def hexDigit? (c : Char) : Option Nat :=
  if '0' ≤ c ∧ c ≤ '9' then some (c.toNat - '0'.toNat)
  else if 'a' ≤ c ∧ c ≤ 'f' then some (c.toNat - 'a'.toNat + 10)
  else if 'A' ≤ c ∧ c ≤ 'F' then some (c.toNat - 'A'.toNat + 10)
  else none

/-- Decode a hex string into bytes. -/
def hexToBytes? (s : String) : Option (List UInt8) :=
  let rec go : List Char → List UInt8 → Option (List UInt8)
    | [], acc => some acc.reverse
    | [_], _ => none
    | a :: b :: rest, acc =>
      match hexDigit? a, hexDigit? b with
      | some x, some y => go rest (UInt8.ofNat (x * 16 + y) :: acc)
      | _, _ => none
  go s.toList []

/-- Decode hex of UTF-8 bytes into a `String` (none if not hex or not valid UTF-8). -/
def hexToString? (s : String) : Option String := do
  let bs ← hexToBytes? s
  let ba : ByteArray := ⟨bs.toArray⟩
  String.fromUTF8? ba

def nibble (n : Nat) : Char :=
  if n < 10 then Char.ofNat (n + '0'.toNat) else Char.ofNat (n - 10 + 'a'.toNat)

def bytesToHex (bs : List UInt8) : String :=
  String.ofList (bs.flatMap fun b => [nibble (b.toNat / 16), nibble (b.toNat % 16)])

def stringToHex (s : String) : String := bytesToHex s.toUTF8.toList

def words (line : String) : List String :=
  (line.trimAscii.toString.splitOn " ").filter (· ≠ "")

end PestModel.Proto

namespace PestModel.Proto

/-- S-expressions over ASCII atoms. -/
inductive SExp where
  | atom (s : String)
  | list (xs : List SExp)
  deriving Repr, Inhabited

/-- Tokenise: parentheses are tokens, atoms are separated by spaces. -/
def sexpTokens (s : String) : List String :=
  let rec go : List Char → List Char → List String → List String
    | [], cur, acc => (if cur.isEmpty then acc else String.ofList cur.reverse :: acc).reverse
    | c :: cs, cur, acc =>
      let flush := fun (_ : Unit) => if cur.isEmpty then acc else String.ofList cur.reverse :: acc
      if c = '(' then go cs [] ("(" :: flush ())
      else if c = ')' then go cs [] (")" :: flush ())
      else if c = ' ' ∨ c = '\n' ∨ c = '\r' ∨ c = '\t' then go cs [] (flush ())
      else go cs (c :: cur) acc
  go s.toList [] []

/-- Parse a sequence of tokens into S-expressions (stack machine; `none` on imbalance). -/
def sexpParse (toks : List String) : Option (List SExp) :=
  let rec go : List String → List (List SExp) → Option (List SExp)
    | [], [top] => some top.reverse
    | [], _ => none
    | t :: ts, stack =>
      if t = "(" then go ts ([] :: stack)
      else if t = ")" then
        match stack with
        | cur :: parent :: rest => go ts ((SExp.list cur.reverse :: parent) :: rest)
        | _ => none
      else
        match stack with
        | cur :: rest => go ts ((SExp.atom t :: cur) :: rest)
        | [] => none
  go toks [[]]

def hexOrDash (s : String) : Option String :=
  if s = "-" then some "" else hexToString? s

def toHexOrDash (s : String) : String :=
  let h := stringToHex s
  if h.isEmpty then "-" else h

end PestModel.Proto
