import PestModel.Lemmas.GenVmSim
import PestModel.Lemmas.VmRefEnv
/-! C02: slots of the lowered environment, for both back-ends. -/
namespace PestModel.GenVm
open PestModel.PS PestModel.Lower PestModel.G
open PestModel.VmRef (ctxIdx_lt contexts_ctxIdx)

def lowerRule (b : Backend) (env : Env) (i : Nat) (r : ORule) (c : Atomicity) : Prog :=
  match b with | .vm => vmRule env i r c | .gen => genRule env i r c

theorem lowerAll_go_get (b : Backend) (env : Env) : ∀ (rs : List ORule) (i k : Nat) (m : Atomicity),
    (lowerAll.go b env rs i)[3 * k + ctxIdx m]? = (rs[k]?).map fun r => lowerRule b env (i + k) r m
  | [], i, k, m => by simp [lowerAll.go]
  | r :: rs, i, k, m => by
    rw [lowerAll.go]
    cases k with
    | zero =>
      have := ctxIdx_lt m
      rw [List.getElem?_append_left (by simp only [List.length_map, contexts, List.length_cons, List.length_nil]; omega)]
      simp only [Nat.mul_zero, Nat.zero_add, List.getElem?_map, contexts_ctxIdx, Option.map_some,
        List.getElem?_cons_zero, Nat.add_zero]
      rfl
    | succ k =>
      rw [List.getElem?_append_right (by simp only [List.length_map, contexts, List.length_cons, List.length_nil]; omega)]
      simp only [List.length_map, contexts, List.length_cons, List.length_nil]
      have : 3 * (k + 1) + ctxIdx m - 3 = 3 * k + ctxIdx m := by omega
      rw [this, lowerAll_go_get b env rs (i + 1) k m, List.getElem?_cons_succ]
      have : i + 1 + k = i + (k + 1) := by omega
      rw [this]

theorem lowerAll_get (b : Backend) (env : Env) (i : Nat) (m : Atomicity) :
    (lowerAll b env)[3 * i + ctxIdx m]? = (env.rules[i]?).map fun r => lowerRule b env i r m := by
  show (lowerAll.go b env env.rules 0)[3 * i + ctxIdx m]? = _
  rw [lowerAll_go_get]
  simp

/-- every slot index is `3 * i + ctxIdx m`. -/
theorem slot_decomp (j : Nat) : ∃ i m, j = 3 * i + ctxIdx m := by
  have h : j % 3 < 3 := Nat.mod_lt _ (by decide)
  have hj : j = 3 * (j / 3) + j % 3 := (Nat.div_add_mod j 3).symm
  rcases (by omega : j % 3 = 0 ∨ j % 3 = 1 ∨ j % 3 = 2) with h0 | h1 | h2
  · exact ⟨j / 3, .nonAtomic, by rw [ctxIdx]; omega⟩
  · exact ⟨j / 3, .atomic, by rw [ctxIdx]; omega⟩
  · exact ⟨j / 3, .compound, by rw [ctxIdx]; omega⟩

end PestModel.GenVm
