//! C10: line/column arithmetic, line_of, lines_span, error rendering vs `pestmodel linecol`
//! and vs the counting definition (oracle) evaluated here.
use pest::error::{Error, ErrorVariant, LineColLocation};
use pest::{Position, Span};
use std::collections::BTreeMap;
use verif_harness::*;

#[allow(non_camel_case_types)]
#[derive(Clone, Copy, Debug, Eq, Hash, Ord, PartialEq, PartialOrd)]
enum R { a }

fn lc(p: (usize, usize)) -> String { format!("{},{}", p.0, p.1) }
fn loc(l: &LineColLocation) -> String {
    match l { LineColLocation::Pos(p) => format!("P{}", lc(*p)), LineColLocation::Span(a, b) => format!("S{};{}", lc(*a), lc(*b)) }
}
fn custom() -> ErrorVariant<R> { ErrorVariant::CustomError { message: "m".into() } }

// ---- oracle: the counting definitions
fn spec_lc(s: &str, off: usize) -> (usize, usize) {
    let pre = &s[..off];
    let line = 1 + pre.chars().filter(|&c| c == '\n').count();
    let col = 1 + pre.chars().rev().take_while(|&c| c != '\n').count();
    (line, col)
}
/// lines of s as (start,end) byte ranges, each maximal and '\n'-terminated (except possibly the last)
fn spec_lines(s: &str) -> Vec<(usize, usize)> {
    let mut v = vec![]; let mut st = 0;
    for (i, c) in s.char_indices() { if c == '\n' { v.push((st, i + 1)); st = i + 1; } }
    v.push((st, s.len()));
    v
}
fn spec_line_of(s: &str, off: usize) -> (usize, usize) {
    // the line containing the offset: the last line whose start is <= off
    *spec_lines(s).iter().filter(|(a, _)| *a <= off).last().unwrap()
}

fn run_cp(s: &str, off: usize, k: usize) -> (String, String) {
    let pos = match Position::new(s, off) { Some(p) => p, None => return ("nb".into(), if s.is_char_boundary(off) && off <= s.len() { "FAIL Position::new rejected a boundary".into() } else { "ok".into() }) };
    let mut verdict = String::from("ok");
    let mut fail = |m: String| if verdict == "ok" { verdict = format!("FAIL {}", m) };
    let want = spec_lc(s, off);
    let a = catch(|| pos.line_col());
    let lcs = match &a { Ok(p) => { if *p != want { fail(format!("Position::line_col={:?} spec={:?}", p, want)); } lc(*p) } Err(_) => { fail("Position::line_col panicked".into()); "panic".into() } };
    // Pair::line_col: pair starting at off, last token at k
    let n1 = s[..off].chars().count();
    let n2 = if k >= off && s.is_char_boundary(k) && k <= s.len() { s[off..k].chars().count() } else { 0 };
    let pr = catch(|| {
        let pairs = pest::state::<R, _>(s, |st| st.skip(n1).and_then(|st| st.rule(R::a, |st| st.skip(n2)))).unwrap();
        pairs.clone().next().unwrap().line_col()
    });
    let prs = match &pr { Ok(p) => { if *p != want { fail(format!("Pair::line_col={:?} spec={:?}", p, want)); } lc(*p) } Err(_) => { fail("Pair::line_col panicked".into()); "panic".into() } };
    let lo = catch(|| pos.line_of().to_string());
    let (la, lb) = spec_line_of(s, off);
    let los = match &lo { Ok(l) => { if l != &s[la..lb] { fail(format!("line_of={:?} spec={:?}", l, &s[la..lb])); } hexs(l) } Err(_) => { fail("line_of panicked".into()); "panic".into() } };
    let e = catch(|| { let e: Error<R> = Error::new_from_pos(custom(), pos); (loc(&e.line_col), format!("{}", e), e.line().to_string()) });
    let es = match &e {
        Ok((l, d, _line)) => {
            if *l != format!("P{}", lc(want)) { fail(format!("Error.line_col={} spec={:?}", l, want)); }
            // rendering shows line number, the line text (CR/LF stripped or visualised), marker under col
            let rows: Vec<&str> = d.split('\n').collect();
            let text = &s[la..lb];
            let stripped: String = text.chars().filter(|c| *c != '\r' && *c != '\n').collect();
            let vis: String = text.replace('\r', "␍").replace('\n', "␊");
            let num = want.0.to_string();
            let okhead = rows.get(0).map_or(false, |r| r.ends_with(&format!("--> {}:{}", want.0, want.1)));
            let okline = rows.get(2).map_or(false, |r| *r == format!("{} | {}", num, stripped) || *r == format!("{} | {}", num, vis));
            let okmark = rows.get(3).map_or(false, |r| { let body: Vec<char> = r.chars().skip(num.len() + 3).collect(); body.iter().position(|c| *c == '^') == Some(want.1 - 1) });
            if !(okhead && okline && okmark) { fail(format!("rendering does not show line/col/marker: head={} line={} mark={}", okhead, okline, okmark)); }
            format!("elc={} disp={}", l, hexs(d))
        }
        Err(_) => { fail("Error::new_from_pos/Display panicked".into()); "panic".into() }
    };
    (format!("lc={} pair={} lineof={} {}", lcs, prs, los, es), verdict)
}

fn run_cs(s: &str, a: usize, b: usize) -> (String, String) {
    let should = a <= b && b <= s.len() && s.is_char_boundary(a) && s.is_char_boundary(b);
    let span = match Span::new(s, a, b) { Some(sp) => sp, None => return ("none".into(), if should { "FAIL Span::new rejected ordered boundaries".into() } else { "ok".into() }) };
    let mut verdict = String::from("ok");
    let mut fail = |m: String| if verdict == "ok" { verdict = format!("FAIL {}", m) };
    if !should { fail("Span::new accepted unordered or non-boundary offsets".into()); return ("some".into(), verdict); }
    // the other constructor of the same span: Position::span
    match catch(|| { let p = Position::new(s, a).unwrap(); let q = Position::new(s, b).unwrap(); let sp = p.span(&q); (sp.start(), sp.end(), sp.as_str().to_string()) }) {
        Ok((x, y, t)) => { if (x, y) != (a, b) || t != s[a..b] { fail(format!("Position::span gives {}..{} {:?}", x, y, t)); } }
        Err(_) => fail("Position::span panicked on ordered positions".into()),
    }
    let ls = catch(|| span.lines_span().map(|x| (x.start(), x.end())).collect::<Vec<_>>());
    // spec: consecutive lines meeting the closed byte range [a,b] clipped to [0,len)
    let want: Vec<(usize, usize)> = spec_lines(s).into_iter().filter(|(x, y)| x < y && *x <= b && *y > a && *x < s.len()).collect();
    let lss = match &ls {
        Ok(v) => {
            if *v != want { fail(format!("lines_span={:?} spec={:?}", v, want)); }
            let strs: Vec<&str> = span.lines().collect();
            if strs != v.iter().map(|(x, y)| &s[*x..*y]).collect::<Vec<_>>() { fail("lines() differs from lines_span()".into()); }
            v.iter().map(|(x, y)| format!("{}-{}", x, y)).collect::<Vec<_>>().join(",")
        }
        Err(_) => { fail("lines_span panicked".into()); "panic".into() }
    };
    let e = catch(|| { let e: Error<R> = Error::new_from_span(custom(), span); (loc(&e.line_col), format!("{}", e)) });
    let es = match &e {
        Ok((l, d)) => {
            let st = spec_lc(s, a);
            if !l.starts_with(&format!("S{};", lc(st))) { fail(format!("Error.line_col={} start spec={:?}", l, st)); }
            // the end of the span is reported by its own line and column (counted in characters), unless it sits at the start of a
            // line (then the implementation points at the line break before it; that case is left to the model)
            let en = spec_lc(s, b);
            if en.1 != 1 && !l.ends_with(&format!(";{}", lc(en))) { fail(format!("Error.line_col={} end spec={:?}", l, en)); }
            let rows: Vec<&str> = d.split('\n').collect();
            let okhead = rows.get(0).map_or(false, |r| r.ends_with(&format!("--> {}:{}", st.0, st.1)));
            let oknum = rows.get(2).map_or(false, |r| r.trim_start().starts_with(&format!("{} | ", st.0)));
            let okmark = rows.iter().any(|r| r.contains('^'));
            if !(okhead && oknum && okmark) { fail(format!("span rendering: head={} num={} mark={}", okhead, oknum, okmark)); }
            // the gutter: every row that has a `|` bar has it in the same character column (the marker row is aligned with the text rows)
            let bars: Vec<usize> = rows.iter().skip(1).filter(|r| !r.trim_start().starts_with('=')).filter_map(|r| r.chars().position(|c| c == '|')).collect();
            if bars.windows(2).any(|w| w[0] != w[1]) { fail(format!("span rendering: the `|` bars are in columns {:?}", bars)); }
            format!("elc={} disp={}", l, hexs(d))
        }
        Err(_) => { fail("Error::new_from_span/Display panicked".into()); "panic".into() }
    };
    (format!("lines={} {}", lss, es), verdict)
}

/// `Span::get(x..y)` of the span a..b: a sub-span, taken in the span's own text
fn run_cg(s: &str, a: usize, b: usize, x: usize, y: usize) -> (String, String) {
    let span = match Span::new(s, a, b) { Some(sp) => sp, None => return ("nospan".into(), "ok".into()) };
    let should = x <= y && y <= b - a && s.is_char_boundary(a + x) && s.is_char_boundary(a + y);
    match catch(|| span.get(x..y).map(|g| (g.start(), g.end(), g.as_str().to_string(), g.get_input().len()))) {
        Ok(Some((p, q, t, il))) => {
            let v = if !should { format!("FAIL Span::get({}..{}) of the span {}..{} returned {}..{}: the range is not a span inside it", x, y, a, b, p, q) }
                else if (p, q) != (a + x, a + y) || t != s[a + x..a + y] || il != s.len() { format!("FAIL Span::get({}..{}) of the span {}..{} returned {}..{} {:?}", x, y, a, b, p, q, t) }
                else { "ok".into() };
            (format!("some {}-{}", p, q), v)
        }
        Ok(None) => ("none".into(), if should { format!("FAIL Span::get({}..{}) of the span {}..{} rejected a sub-span on boundaries", x, y, a, b) } else { "ok".into() }),
        Err(_) => ("panic".into(), "FAIL Span::get panicked".into()),
    }
}

fn eval_line(l: &str) -> (String, String) {
    let w6: Vec<&str> = l.split_whitespace().collect();
    if w6.len() == 6 && w6[0] == "CG" {
        let s = match unhexs(w6[1]) { Some(s) => s, None => return ("bad-op".into(), "ok".into()) };
        let n: Vec<usize> = w6[2..].iter().filter_map(|t| t.parse().ok()).collect();
        if n.len() != 4 { return ("bad-op".into(), "ok".into()); }
        return run_cg(&s, n[0], n[1], n[2], n[3]);
    }
    let w: Vec<&str> = l.split_whitespace().collect();
    if w.len() != 4 { return ("bad-op".into(), "ok".into()); }
    let s = match unhexs(w[1]) { Some(s) => s, None => return ("bad-op".into(), "ok".into()) };
    let (x, y) = match (w[2].parse::<usize>(), w[3].parse::<usize>()) { (Ok(x), Ok(y)) => (x, y), _ => return ("bad-op".into(), "ok".into()) };
    match w[0] { "CP" => run_cp(&s, x, y), "CS" => run_cs(&s, x, y), _ => ("bad-op".into(), "ok".into()) }
}

fn main() {
    quiet_panics();
    let mut out = Out::new();
    match cli() {
        Cmd::Run { ops, out: dir } => {
            for l in &ops { let (i, v) = eval_line(l); out.push(l.clone(), i, v); }
            out.write(&dir, "{}");
        }
        Cmd::Gen { thorough, seed, out: dir } => {
            let alpha: Vec<&str> = vec!["a", "\n", "\r", "\t", "é", "嗨"];
            let maxlen = if thorough { 6 } else { 5 };
            let mut rng = Rng::new(seed);
            let mut nstr = 0u64; let mut nontriv = 0u64;
            let mut hist: BTreeMap<String, u64> = BTreeMap::new();
            let mut strings: Vec<String> = vec![];
            for len in 0..=maxlen {
                let mut idx = vec![0usize; len];
                loop {
                    strings.push(idx.iter().map(|&i| alpha[i]).collect());
                    let mut k = len; let mut done = true;
                    while k > 0 { k -= 1; idx[k] += 1; if idx[k] < alpha.len() { done = false; break; } idx[k] = 0; }
                    if done { break; }
                }
            }
            let exhaustive_strings = strings.len();
            // random longer strings with many lines, CRLF and multi-byte characters
            let nrand = if thorough { 20000 } else { 3000 };
            let pieces = ["a", "bc", "\n", "\r\n", "\r", "\t", "é", "嗨", "💖", " ", "\n\n", "x\ty"];
            for _ in 0..nrand {
                let n = rng.range(7, if thorough { 60 } else { 30 });
                let mut s = String::new();
                for _ in 0..n { s.push_str(*rng.pick(&pieces[..])); }
                strings.push(s);
            }
            for (si, s) in strings.iter().enumerate() {
                nstr += 1;
                let bounds: Vec<usize> = (0..=s.len()).filter(|&i| s.is_char_boundary(i)).collect();
                let exhaustive = si < exhaustive_strings;
                let h = hexs(s);
                if s.contains('\n') && s.chars().any(|c| c.len_utf8() > 1) { nontriv += 1; }
                *hist.entry(format!("len{}", s.chars().count().min(10))).or_default() += 1;
                let offs: Vec<usize> = if exhaustive { bounds.clone() } else { (0..6).map(|_| *rng.pick(&bounds)).collect() };
                for &off in &offs {
                    let ks: Vec<usize> = if exhaustive { vec![off, s.len()] } else { vec![*rng.pick(&bounds).max(&off)] };
                    for k in ks { let l = format!("CP {} {} {}", h, off, k); let (i, v) = eval_line(&l); out.push(l, i, v); }
                }
                // non-boundary / out-of-range offsets
                for off in 0..=s.len() + 1 { if !bounds.contains(&off) && (exhaustive || rng.chance(1, 8)) { let l = format!("CP {} {} {}", h, off, off); let (i, v) = eval_line(&l); out.push(l, i, v); } }
                let pairs: Vec<(usize, usize)> = if exhaustive {
                    let mut v = vec![]; for &a in &bounds { for &b in &bounds { if a <= b { v.push((a, b)); } } }
                    if s.len() >= 2 { v.push((s.len(), 0)); v.push((1, s.len() + 1)); if let Some(nb) = (0..s.len()).find(|i| !s.is_char_boundary(*i)) { v.push((0, nb)); v.push((nb, s.len())); } }
                    v
                } else { (0..8).map(|_| { let a = *rng.pick(&bounds); let b = *rng.pick(&bounds); (a.min(b), a.max(b)) }).collect() };
                for (a, b) in pairs.iter().cloned() { let l = format!("CS {} {} {}", h, a, b); let (i, v) = eval_line(&l); out.push(l, i, v); }
                // sub-spans: every range up to one byte past the END OF THE INPUT (so ranges that leave the span but stay in the input are there)
                for (a, b) in pairs.iter().cloned().filter(|(a, b)| a <= b && *b <= s.len() && s.is_char_boundary(*a) && s.is_char_boundary(*b)) {
                    if exhaustive && s.chars().count() > 3 { continue; }
                    let lim = s.len() - a + 1;
                    let subs: Vec<(usize, usize)> = if exhaustive { let mut v = vec![]; for x in 0..=lim { for y in 0..=lim { if x <= y + 1 { v.push((x, y)); } } } v }
                        else { (0..4).map(|_| { let x = rng.range(0, lim); let y = rng.range(0, lim); (x.min(y), x.max(y)) }).collect() };
                    for (x, y) in subs { let l = format!("CG {} {} {} {} {}", h, a, b, x, y); let (i, v) = eval_line(&l); out.push(l, i, v); }
                }
            }
            let samples: Vec<String> = out.ops.iter().step_by((out.ops.len() / 6).max(1)).take(6).cloned().collect();
            let stats = format!("{{\"evaluations\":{},\"strings\":{},\"exhaustive_strings\":{},\"exhaustive_max_chars\":{},\"alphabet\":\"a LF CR TAB e-acute(2 bytes) U+55E8(3 bytes)\",\"random_strings\":{},\"strings_with_newline_and_multibyte\":{},\"length_histogram\":{:?},\"samples\":{:?}}}",
                out.ops.len(), nstr, exhaustive_strings, maxlen, nrand, nontriv, hist, samples);
            out.write(&dir, &stats);
        }
    }
}
