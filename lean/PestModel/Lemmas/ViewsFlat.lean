import PestModel.Lemmas.ViewsPairs
import PestModel.Lemmas.ViewsToks
/-! Helper lemmas for C04: the `FlatPairs` iterator. -/
namespace PestModel.Views
open PestModel.PS (QTok)
open PestModel.LineCol (Str)

@[simp] theorem Tree.preorder_node (r a b : Nat) (t : Option Str) (cs : List Tree) :
    (Tree.node r a b t cs).preorder = .node r a b t cs :: preorderList cs := by simp [Tree.preorder]
@[simp] theorem preorderList_nil : preorderList [] = [] := by simp [preorderList]
@[simp] theorem preorderList_cons (t : Tree) (ts : List Tree) :
    preorderList (t :: ts) = t.preorder ++ preorderList ts := by simp [preorderList]

/-- The window `[s, e)` as `FlatPairs` sees it: it begins at the `Start` token of the first
remaining node, the other `Start` tokens follow in order, everything in between is an `End`. -/
def FlatSeg (q : List QTok) : Nat → Nat → List Tree → Prop
  | s, e, [] => s = e
  | s, e, t :: L => PairObs q s t ∧ isStart q s = some true ∧
      ∃ m, s < m ∧ (∀ j, s < j → j < m → isStart q j = some false) ∧ FlatSeg q m e L

variable {q : List QTok}

theorem isStart_start {a e p : Nat} (h : q[a]? = some (.start e p)) : isStart q a = some true := by
  simp [isStart, h]
theorem isStart_end {a e r p : Nat} {t : Option Str} (h : q[a]? = some (.end_ e r t p)) :
    isStart q a = some false := by
  simp [isStart, h]

namespace FlatSeg

theorem le : ∀ {L : List Tree} {s e : Nat}, FlatSeg q s e L → s ≤ e := by
  intro L
  induction L with
  | nil => intro s e h; simp [FlatSeg] at h; omega
  | cons t L ih =>
    intro s e h
    obtain ⟨_, _, m, hm, _, hr⟩ := h
    have := ih hr; omega

theorem lt {L : List Tree} {s e : Nat} {t : Tree} (h : FlatSeg q s e (t :: L)) : s < e := by
  obtain ⟨_, _, m, hm, _, hr⟩ := h
  have := hr.le; omega

theorem head {L : List Tree} {s e : Nat} (h : FlatSeg q s e L) : s = e ∨ isStart q s = some true := by
  cases L with
  | nil => exact .inl h
  | cons t L => exact .inr h.2.1

theorem append : ∀ {L1 L2 : List Tree} {s m e : Nat}, FlatSeg q s m L1 → FlatSeg q m e L2 →
    FlatSeg q s e (L1 ++ L2) := by
  intro L1
  induction L1 with
  | nil => intro L2 s m e h1 h2; simp [FlatSeg] at h1; subst h1; simpa using h2
  | cons t L ih =>
    intro L2 s m e h1 h2
    obtain ⟨ho, hs, m1, hm, hg, hr⟩ := h1
    exact ⟨ho, hs, m1, hm, hg, ih hr h2⟩

theorem extend : ∀ {L : List Tree} {s m m' : Nat} {t : Tree}, FlatSeg q s m (t :: L) → m ≤ m' →
    (∀ j, m ≤ j → j < m' → isStart q j = some false) → FlatSeg q s m' (t :: L) := by
  intro L
  induction L with
  | nil =>
    intro s m m' t h hle hg
    obtain ⟨ho, hs, m1, hm, hg1, hr⟩ := h
    simp only [FlatSeg] at hr
    subst hr
    refine ⟨ho, hs, m', by omega, ?_, rfl⟩
    intro j h1 h2
    rcases Nat.lt_or_ge j m1 with h | h
    · exact hg1 j h1 h
    · exact hg j h h2
  | cons t' L ih =>
    intro s m m' t h hle hg
    obtain ⟨ho, hs, m1, hm, hg1, hr⟩ := h
    exact ⟨ho, hs, m1, hm, hg1, ih hr hle hg⟩

theorem snoc_inv : ∀ {L : List Tree} {s e : Nat} {t : Tree}, FlatSeg q s e (L ++ [t]) →
    ∃ i, s ≤ i ∧ i < e ∧ PairObs q i t ∧ isStart q i = some true ∧
      (∀ j, i < j → j < e → isStart q j = some false) ∧ FlatSeg q s i L := by
  intro L
  induction L with
  | nil =>
    intro s e t h
    obtain ⟨ho, hs, m1, hm, hg1, hr⟩ := h
    simp only [FlatSeg] at hr
    subst hr
    exact ⟨s, Nat.le_refl _, hm, ho, hs, hg1, rfl⟩
  | cons t' L ih =>
    intro s e t h
    obtain ⟨ho, hs, m1, hm, hg1, hr⟩ := h
    obtain ⟨i, h1, h2, h3, h4, h5, h6⟩ := ih hr
    exact ⟨i, by omega, h2, h3, h4, h5, ho, hs, m1, hm, hg1, h6⟩

end FlatSeg

theorem flat_of_layout {a b : Nat} {ts : List Tree} (h : Layout q a ts b) :
    FlatSeg q a b (preorderList ts) := by
  induction h with
  | nil a => simp [FlatSeg]
  | cons h1 h2 hk hr ihk ihr =>
    rename_i a e b r p0 p1 tag kids rest
    have hobs : PairObs q a (.node r p0 p1 tag kids) := pairObs_of h1 h2 hk
    have hle := hk.le
    simp only [preorderList_cons, Tree.preorder_node, List.cons_append]
    have hfirst : FlatSeg q a (e + 1) (.node r p0 p1 tag kids :: preorderList kids) := by
      cases hpk : preorderList kids with
      | nil =>
        rw [hpk] at ihk
        simp only [FlatSeg] at ihk
        refine ⟨hobs, isStart_start h1, e + 1, by omega, ?_, rfl⟩
        intro j hj1 hj2
        have : j = e := by omega
        subst this
        exact isStart_end h2
      | cons k ks =>
        rw [hpk] at ihk
        refine ⟨hobs, isStart_start h1, a + 1, by omega, fun j h1 h2 => by omega, ?_⟩
        refine ihk.extend (by omega) ?_
        intro j hj1 hj2
        have : j = e := by omega
        subst this
        exact isStart_end h2
    exact hfirst.append ihr

/-! ### the cursor movements -/

theorem flatAdvance_gap {stop : Nat} : ∀ (fuel i m : Nat), i ≤ m → m ≤ stop →
    (∀ j, i ≤ j → j < m → isStart q j = some false) → (m = stop ∨ isStart q m = some true) →
    m - i ≤ fuel → flatAdvance q stop fuel i = some m := by
  intro fuel
  induction fuel with
  | zero => intro i m h1 h2 _ _ hf; have : i = m := by omega
            subst this; simp [flatAdvance]
  | succ fuel ih =>
    intro i m h1 h2 hg hm hf
    rw [flatAdvance]
    by_cases hlt : i < stop
    · simp only [hlt, if_true]
      by_cases him : i = m
      · subst him
        rcases hm with hm | hm
        · omega
        · simp [hm]
      · rw [hg i (Nat.le_refl _) (by omega)]
        exact ih (i + 1) m (by omega) h2 (fun j h1 h2 => hg j (by omega) h2) hm (by omega)
    · have : i = m := by omega
      subst this; simp [hlt]

theorem flatRetreat_gap {start : Nat} : ∀ (fuel j i : Nat), i ≤ j → start ≤ i →
    isStart q i = some true → (∀ k, i < k → k ≤ j → isStart q k = some false) →
    j - i + 1 ≤ fuel → flatRetreat q start fuel j = some i := by
  intro fuel
  induction fuel with
  | zero => intro j i _ _ _ _ hf; omega
  | succ fuel ih =>
    intro j i h1 h2 hs hg hf
    rw [flatRetreat]
    have hge : j ≥ start := by omega
    simp only [hge, if_true]
    by_cases hji : j = i
    · subst hji; simp [hs]
    · rw [hg j (by omega) (Nat.le_refl _)]
      have : ¬ j = 0 := by omega
      simp only [this, if_false]
      exact ih (j - 1) i (by omega) h2 hs (fun k h1 h2 => hg k h1 (by omega)) (by omega)

/-! ### `len` -/

def lenStep (q : List QTok) (i acc : Nat) : Option Nat :=
  match isStart q i with
  | some true => some (acc + 1)
  | some false => some acc
  | none => none

def lenGo (q : List QTok) (s n acc : Nat) : Option Nat :=
  (List.range n).foldlM (fun acc k => lenStep q (s + k) acc) acc

theorem Flat.len_eq (v : Flat) : v.len q = lenGo q v.start (v.stop - v.start) 0 := rfl

theorem lenGo_zero (s acc : Nat) : lenGo q s 0 acc = some acc := by
  simp [lenGo]

theorem lenGo_succ (s n acc : Nat) : lenGo q s (n + 1) acc = (lenStep q s acc).bind (lenGo q (s + 1) n) := by
  unfold lenGo
  rw [List.range_succ_eq_map, List.foldlM_cons]
  have : (fun acc k => lenStep q (s + 1 + k) acc) = (fun acc k => lenStep q (s + Nat.succ k) acc) := by
    funext acc k
    congr 1
    omega
  simp only [List.foldlM_map, Nat.add_zero, Option.bind_eq_bind, this]

theorem lenGo_gap : ∀ (d s n acc : Nat), (∀ j, s ≤ j → j < s + d → isStart q j = some false) →
    lenGo q s (d + n) acc = lenGo q (s + d) n acc := by
  intro d
  induction d with
  | zero => intro s n acc _; simp
  | succ d ih =>
    intro s n acc hg
    have : d + 1 + n = (d + n) + 1 := by omega
    rw [this, lenGo_succ]
    have h0 : lenStep q s acc = some acc := by simp [lenStep, hg s (Nat.le_refl _) (by omega)]
    rw [h0]
    simp only [Option.bind_some]
    rw [ih (s + 1) n acc (fun j h1 h2 => hg j (by omega) (by omega))]
    congr 1; omega

theorem lenGo_of_seg : ∀ {L : List Tree} {s e : Nat} (acc : Nat), FlatSeg q s e L →
    lenGo q s (e - s) acc = some (acc + L.length) := by
  intro L
  induction L with
  | nil => intro s e acc h; simp only [FlatSeg] at h; subst h; simp [lenGo_zero]
  | cons t L ih =>
    intro s e acc h
    have hlt := h.lt
    obtain ⟨_, hs, m, hm, hg, hr⟩ := h
    have hme := hr.le
    have : e - s = ((m - (s + 1)) + (e - m)) + 1 := by omega
    rw [this, lenGo_succ]
    have h0 : lenStep q s acc = some (acc + 1) := by simp [lenStep, hs]
    rw [h0]
    simp only [Option.bind_some]
    rw [lenGo_gap _ _ _ _ (fun j h1 h2 => hg j (by omega) (by omega))]
    have : s + 1 + (m - (s + 1)) = m := by omega
    rw [this, ih _ hr]
    simp; omega

theorem flat_len_of_seg {L : List Tree} {s e : Nat} (h : FlatSeg q s e L) :
    Flat.len q ⟨s, e⟩ = some L.length := by
  rw [Flat.len_eq]
  simpa using lenGo_of_seg 0 h

/-! ### any interleaving -/

theorem flatRun_of_seg : ∀ (ops : List Bool) (s e : Nat) (L : List Tree), FlatSeg q s e L →
    ∃ res, flatRun q ⟨s, e⟩ ops = some res ∧ ObsMatch q res (dequeRun L ops) := by
  intro ops
  induction ops with
  | nil => intro s e L _; exact ⟨[], by simp [flatRun], by simp [ObsMatch]⟩
  | cons op ops ih =>
    intro s e L h
    cases L with
    | nil =>
      have hse : s = e := h
      obtain ⟨res, hr, hm⟩ := ih s e [] h
      have hlen := flat_len_of_seg h
      refine ⟨(none, 0) :: res, ?_, ?_⟩
      · cases op <;> simp [flatRun, Flat.next, Flat.nextBack, hse] <;> subst hse <;> simp [hlen, hr]
      · simp [dequeRun, ObsMatch, hm]
    | cons t L =>
      have hlt := h.lt
      cases op with
      | true =>
        obtain ⟨ho, hs, m, hm, hg, hr⟩ := h
        have hme := hr.le
        have hadv : flatAdvance q e (e - s) (s + 1) = some m :=
          flatAdvance_gap _ _ _ (by omega) hme (fun j h1 h2 => hg j (by omega) h2) hr.head (by omega)
        obtain ⟨res, hres, hmatch⟩ := ih m e L hr
        have hlen := flat_len_of_seg hr
        have hge : ¬ s ≥ e := by omega
        refine ⟨(some s, L.length) :: res, ?_, ?_⟩
        · simp [flatRun, Flat.next, hge, hadv, hlen, hres]
        · simp [dequeRun, ObsMatch, ho, hmatch]
      | false =>
        have hne : t :: L ≠ [] := by simp
        have hdec := List.dropLast_concat_getLast hne
        rw [← hdec] at h
        obtain ⟨i, h1, h2, ho, hs, hg, hr⟩ := h.snoc_inv
        have hret : flatRetreat q s (e - s + 1) (e - 1) = some i :=
          flatRetreat_gap _ _ _ (by omega) h1 hs (fun k h1 h2 => hg k h1 (by omega)) (by omega)
        obtain ⟨res, hres, hmatch⟩ := ih s i _ hr
        have hlen := flat_len_of_seg hr
        have hle : ¬ e ≤ s := by omega
        refine ⟨(some i, (t :: L).dropLast.length) :: res, ?_, ?_⟩
        · simp only [flatRun, Flat.nextBack]
          simp [hle, hret, hlen, hres]
        · simp only [dequeRun, List.getLast?_eq_some_getLast hne, ObsMatch]
          exact ⟨ho, by simp, hmatch⟩

end PestModel.Views
