import PestModel.Model.Validator
import PestModel.Model.Ref
import PestModel.Model.RefSpec
import PestModel.Lemmas.Validator
import PestModel.Lemmas.ValidatorSound
/-!
# C06 — validation guarantees termination and accepts well-formed grammars

`PestModel.V.validateAst` is `pest_meta::validator::validate_ast` (tied to the real validator by the
verdict correspondence). `PestModel.Ref` is the reference semantics.

* Soundness as first stated ("an accepted grammar that does not use the stack terminates on every
  input from every rule", `ValidatorSoundStmt`) is **false**: `validator_sound_refuted`
  (`WHITESPACE = _{ a }  a = !{ EOI ~ "x" }` is accepted and `a` loops on the empty input through the
  implicit whitespace skipping inside the non-atomic rule), `validator_sound_refuted_tag` (tags
  without `grammar-extras` are not looked into).
* `validator_sound_partial`: with "no tag without `grammar-extras`" and "no `!{…}` rule reachable from
  `WHITESPACE`/`COMMENT`" every rule call of an accepted stack-free grammar terminates.
* Completeness (`validator_complete`): strictly guarded grammars are accepted.
-/
namespace PestModel.C06
open PestModel.V PestModel.G PestModel.Ref
open PestModel.PS (Atomicity CharSet)
open PestModel.LineCol (Str)

/-- the four grammars the old check accepted are rejected (the fix of `check_expr` is mirrored). -/
theorem left_recursion_examples :
    leftRecursion false [⟨"a", .normal, .seq (.opt (.ident "a")) (.str ['x'])⟩] = [.leftRecursive "a"] ∧
    leftRecursion false [⟨"a", .normal, .seq (.negPred (.ident "a")) (.str ['x'])⟩] = [.leftRecursive "a"] ∧
    leftRecursion false [⟨"a", .normal, .repExact (.ident "a") 2⟩] = [.leftRecursive "a"] ∧
    leftRecursion false [⟨"a", .normal, .seq (.ident "b") (.str ['x'])⟩, ⟨"b", .normal, .opt (.ident "a")⟩] =
      [.leftRecursive "a", .leftRecursive "b"] := by decide

/-- the stack built-ins. -/
def stackBuiltins : List String := ["PUSH", "PEEK", "PEEK_ALL", "POP", "POP_ALL", "DROP"]

/-- names with a fixed meaning that a grammar cannot redefine (`validate_pest_keywords` /
`validate_rust_keywords` reject them before `validate_ast` runs). -/
def reserved : List String := ["ANY", "SOI", "EOI"] ++ stackBuiltins

/-- the expression does not use the stack. -/
def StackFree : Expr → Bool
  | .ident n => !stackBuiltins.contains n
  | .peekSlice _ _ | .push _ | .pushLiteral _ => false
  | .posPred e | .negPred e | .opt e | .rep e | .repOnce e | .nodeTag e _ => StackFree e
  | .repExact e _ | .repMin e _ | .repMax e _ | .repMinMax e _ _ => StackFree e
  | .seq a b | .choice a b => StackFree a && StackFree b
  | _ => true

/-- what the earlier validation stages (`validate_pairs`) guarantee: distinct rule names, none reserved. -/
def WellNamed (rules : List Rule) : Prop :=
  (rules.map (·.name)).Nodup ∧ ∀ r ∈ rules, r.name ∉ reserved

/-- **Soundness, as originally stated** (a proposition, not a theorem): if the validator accepts a
stack-free grammar, then parsing any input from any of its rules, in any mode, from any position,
terminates (the reference semantics reaches a definite result: success, failure, or `stuck` on an
undefined name). It is **false** (`validator_sound_refuted`); `validator_sound_partial` is the
nearest true statement. -/
def ValidatorSoundStmt : Prop :=
  ∀ (extras : Bool) (rules : List Rule), WellNamed rules →
    (∀ r ∈ rules, StackFree r.expr = true) → validateAst extras rules = [] →
    ∀ (uni : String → Option CharSet) (input : Str) (name : String) (m : Atomicity) (la : Bool) (s : St),
      ∃ fuel, call { rules, input, extras, uni } fuel m la name s ≠ .fuel

/-! ### the counterexamples -/

/-- `WHITESPACE = _{ a }   a = !{ EOI ~ "x" }`: a `!{…}` rule reachable from `WHITESPACE`. Inside
`a` the sequence skips implicit whitespace, which calls `WHITESPACE`, which calls `a` … at the
same position. The left-recursion check does not see the implicit call. -/
def cexWs : List Rule :=
  [⟨"WHITESPACE", .silent, .ident "a"⟩, ⟨"a", .nonAtomic, .seq (.ident "EOI") (.str ['x'])⟩]

theorem cexWs_accepted : ∀ extras, validateAst extras cexWs = [] := by decide

theorem cexWs_wellNamed : WellNamed cexWs := by
  constructor
  · decide
  · decide

theorem cexWs_stackFree : ∀ r ∈ cexWs, StackFree r.expr = true := by decide

theorem cexWs_step (extras : Bool) (uni : String → Option CharSet) (k : Nat) (m : Atomicity) (la : Bool)
    (h : call { rules := cexWs, input := [], extras, uni } k .atomic la "a" ⟨0, []⟩ = .fuel) :
    call { rules := cexWs, input := [], extras, uni } (k + 6) m la "a" ⟨0, []⟩ = .fuel := by
  simp only [cexWs] at h
  simp [call, denote, skipWs, star, Ctx.rule?, Ctx.rule?.go, Ctx.has, cexWs, bodyMode, PestModel.LineCol.bLen, h]

/-- on the empty input, calling `a` needs unbounded fuel. -/
theorem cexWs_diverges (extras : Bool) (uni : String → Option CharSet) :
    ∀ (k : Nat) (m : Atomicity) (la : Bool),
      call { rules := cexWs, input := [], extras, uni } k m la "a" ⟨0, []⟩ = .fuel := by
  intro k
  induction k with
  | zero => intro m la; rfl
  | succ k ih =>
    intro m la
    have h6 := cexWs_step extras uni k m la (ih .atomic la)
    have hle := (lev_mono { rules := cexWs, input := [], extras, uni } (show k + 1 ≤ k + 6 by omega)).ca m la "a" ⟨0, []⟩
    rcases hle with hle | hle
    · exact hle
    · exact hle.trans h6

/-- **the soundness statement is false**: the validator accepts a grammar whose rule `a` does not
terminate on the empty input (a `!{…}` rule called from `WHITESPACE`). -/
theorem validator_sound_refuted : ¬ ValidatorSoundStmt := by
  intro H
  obtain ⟨fuel, h⟩ := H false cexWs cexWs_wellNamed cexWs_stackFree (cexWs_accepted false)
    (fun _ => none) [] "a" .nonAtomic false ⟨0, []⟩
  exact h (cexWs_diverges false _ fuel _ _)

/-- `a = { #t = a }` without `grammar-extras`: the validator does not look into tagged expressions
(the meta-grammar cannot produce a tag without `grammar-extras`, so this needs a hand-built AST). -/
def cexTag : List Rule := [⟨"a", .normal, .nodeTag (.ident "a") ['t']⟩]

theorem cexTag_accepted : validateAst false cexTag = [] := by decide

theorem cexTag_step (uni : String → Option CharSet) (input : Str) (k : Nat) (m : Atomicity) (la : Bool) (s : St)
    (h : call { rules := cexTag, input, extras := false, uni } k m la "a" s = .fuel) :
    call { rules := cexTag, input, extras := false, uni } (k + 3) m la "a" s = .fuel := by
  simp only [cexTag] at h
  simp [call, denote, Ctx.rule?, Ctx.rule?.go, cexTag, bodyMode, h]

theorem cexTag_diverges (uni : String → Option CharSet) (input : Str) :
    ∀ (k : Nat) (m : Atomicity) (la : Bool) (s : St),
      call { rules := cexTag, input, extras := false, uni } k m la "a" s = .fuel := by
  intro k
  induction k with
  | zero => intro m la s; rfl
  | succ k ih =>
    intro m la s
    have h3 := cexTag_step uni input k m la s (ih m la s)
    have hle := (lev_mono { rules := cexTag, input, extras := false, uni } (show k + 1 ≤ k + 3 by omega)).ca m la "a" s
    rcases hle with hle | hle
    · exact hle
    · exact hle.trans h3

/-- a second, independent refutation (tags without `grammar-extras`). -/
theorem validator_sound_refuted_tag : ¬ ValidatorSoundStmt := by
  intro H
  obtain ⟨fuel, h⟩ := H false cexTag (by constructor <;> decide) (by decide) cexTag_accepted
    (fun _ => none) [] "a" .nonAtomic false ⟨0, []⟩
  exact h (cexTag_diverges _ _ fuel _ _ _)

/-! ### the nearest true statement -/

theorem stackFree_eq_SF : ∀ e : Expr, StackFree e = SF e := by
  intro e
  induction e <;> simp_all [StackFree, SF, stackBuiltins, stackNames]

/-- **Soundness (partial).** The two extra hypotheses exclude exactly the two classes of
counterexamples above:
* `htag`: without `grammar-extras` the rules contain no tagged expression (`NoTag`);
* `hna` (`NonAtomicOK`): no `!{…}` (non-atomic) rule other than `WHITESPACE`/`COMMENT` themselves is
  reachable from `WHITESPACE`/`COMMENT` through rule references (`WsReach`). This holds in particular
  if the grammar defines neither `WHITESPACE` nor `COMMENT` (`nonAtomicOK_of_no_ws`), or has no `!{…}`
  rules (`nonAtomicOK_of_no_nonAtomic`).
`WellNamed` is not needed. Then every rule call, in every mode, from every state, terminates. -/
theorem validator_sound_partial (extras : Bool) (rules : List Rule)
    (hsf : ∀ r ∈ rules, StackFree r.expr = true) (hv : validateAst extras rules = [])
    (htag : extras = false → ∀ r ∈ rules, NoTag r.expr = true) (hna : NonAtomicOK rules)
    (uni : String → Option CharSet) (input : Str) (name : String) (m : Atomicity) (la : Bool) (s : St) :
    ∃ fuel, call { rules, input, extras, uni } fuel m la name s ≠ .fuel := by
  let c : Ctx := { rules, input, extras, uni }
  have hsf' : ∀ r ∈ c.rules, SF r.expr = true := fun r hr => by rw [← stackFree_eq_SF]; exact hsf r hr
  have htag' : ∀ r ∈ c.rules, TagOK c.extras r.expr = true := by
    intro r hr
    cases hx : extras with
    | true => simp [TagOK, c, hx]
    | false => simp [TagOK, c, hx, htag hx r hr]
  have hne := sound_core (c := c) hsf' htag' hv hna name s m la
  obtain ⟨n, hn⟩ := exists_call c m la name s
  exact ⟨n, by rw [hn]; exact hne⟩

/-- the counterexample `cexWs` violates exactly `NonAtomicOK` (it has no tags), `cexTag` exactly `htag`. -/
theorem cexWs_noTag : ∀ r ∈ cexWs, NoTag r.expr = true := by decide

theorem cexWs_not_nonAtomicOK : ¬ NonAtomicOK cexWs := by
  intro h
  have h1 : WsReach cexWs "a" := .step .ws (n := "WHITESPACE") (body := .ident "a") (by decide) (by simp [allIdents])
  have := h ⟨"a", .nonAtomic, .seq (.ident "EOI") (.str ['x'])⟩ (by simp [cexWs]) h1 rfl
  revert this
  decide

theorem cexTag_nonAtomicOK : NonAtomicOK cexTag :=
  nonAtomicOK_of_no_nonAtomic (by decide)

/-- `e` begins by matching at least one character through a non-empty literal, a range or a
single-character built-in (a name the grammar does not define and that is not `SOI`/`EOI`/a stack
built-in). -/
def Lead (rules : List Rule) : Expr → Bool
  | .str s | .insens s => !s.isEmpty
  | .range _ _ => true
  | .ident n => (lookup rules n).isNone && n ≠ "SOI" && n ≠ "EOI" && !stackBuiltins.contains n
  | .seq a _ => Lead rules a
  | .choice a b => Lead rules a && Lead rules b
  | .repOnce e | .nodeTag e _ => Lead rules e
  | .repExact e n | .repMin e n => decide (0 < n) && Lead rules e
  | .repMinMax e lo _ => decide (0 < lo) && Lead rules e
  | _ => false

/-- every reference to a grammar rule sits behind a leading character (so no path from a rule back
to itself starts without consuming input), every repetition body and every non-final choice
alternative is `Lead`. `leftmost = true` while nothing has been consumed yet on this path. -/
def Guarded (rules : List Rule) : Bool → Expr → Bool
  | leftmost, .ident n => !(leftmost && (lookup rules n).isSome)
  | leftmost, .seq a b => Guarded rules leftmost a && Guarded rules (leftmost && !Lead rules a) b
  | leftmost, .choice a b => Lead rules a && Guarded rules leftmost a && Guarded rules leftmost b
  | leftmost, .rep e | leftmost, .repOnce e => Lead rules e && Guarded rules leftmost e
  | leftmost, .repMin e _ => Lead rules e && Guarded rules leftmost e
  | leftmost, .repExact e _ | leftmost, .repMax e _ | leftmost, .repMinMax e _ _ => Guarded rules leftmost e
  | leftmost, .opt e | leftmost, .posPred e | leftmost, .negPred e | leftmost, .push e | leftmost, .nodeTag e _ =>
    Guarded rules leftmost e
  | _, _ => true

/-- the whole grammar is strictly guarded; `WHITESPACE` and `COMMENT`, if defined, begin with a character. -/
def StrictlyGuarded (rules : List Rule) : Prop :=
  (∀ r ∈ rules, Guarded rules true r.expr = true) ∧
  (∀ r ∈ rules, (r.name = "WHITESPACE" ∨ r.name = "COMMENT") → Lead rules r.expr = true)

/-- tags (grammar-extras) are only put on expressions that are not silent rules or built-ins. -/
def TagsOk (extras : Bool) (rules : List Rule) : Prop := validateTags extras rules = []

/-! ### completeness: helper lemmas -/

theorem lead_not_nonFailing (rules : List Rule) : ∀ (fuel : Nat) (e : Expr) (trace : List String),
    Lead rules e = true → isNonFailing rules fuel e trace = false := by
  intro fuel
  induction fuel with
  | zero => intros; rfl
  | succ fuel ih =>
    intro e trace h
    cases e <;> simp only [Lead, Bool.and_eq_true, decide_eq_true_eq, Bool.false_eq_true] at h <;>
      simp only [isNonFailing]
    case str s => simpa using h
    case insens s => simpa using h
    case ident n =>
      have hl : lookup rules n = none := by simpa using h.1.1.1
      simp [hl]
    case seq a b => simp [ih a trace h]
    case choice a b => simp [ih a trace h.1, ih b trace h.2]
    case repOnce e => exact ih e trace h
    case nodeTag e t => exact ih e trace h
    case repExact e n =>
      have : (n == 0) = false := by simp; omega
      simp [this, ih e trace h.2]
    case repMin e n =>
      have : (n == 0) = false := by simp; omega
      simp [this, ih e trace h.2]
    case repMinMax e lo hi =>
      have : (lo == 0) = false := by simp; omega
      simp [this, ih e trace h.2]

theorem lead_not_nonProgressing (rules : List Rule) : ∀ (fuel : Nat) (e : Expr) (trace : List String),
    Lead rules e = true → isNonProgressing rules fuel e trace = false := by
  intro fuel
  induction fuel with
  | zero => intros; rfl
  | succ fuel ih =>
    intro e trace h
    cases e <;> simp only [Lead, Bool.and_eq_true, decide_eq_true_eq, Bool.false_eq_true] at h <;>
      simp only [isNonProgressing]
    case str s => simpa using h
    case insens s => simpa using h
    case ident n =>
      have hl : lookup rules n = none := by simpa using h.1.1.1
      have h1 : n ≠ "SOI" := by simpa using h.1.1.2
      have h2 : n ≠ "EOI" := by simpa using h.1.2
      simp [hl, h1, h2]
    case seq a b => simp [ih a trace h]
    case choice a b => simp [ih a trace h.1, ih b trace h.2]
    case repOnce e => exact ih e trace h
    case nodeTag e t => exact ih e trace h
    case repExact e n =>
      have : (n == 0) = false := by simp; omega
      simp [this, ih e trace h.2]
    case repMin e n =>
      have : (n == 0) = false := by simp; omega
      simp [this, ih e trace h.2]
    case repMinMax e lo hi =>
      have : (lo == 0) = false := by simp; omega
      simp [this, ih e trace h.2]

theorem lead_choiceNode (rules : List Rule) (lhs : Expr) :
    Lead rules lhs = true → Lead rules (match lhs with | .choice _ rhs => rhs | _ => lhs) = true := by
  intro hl
  split
  · simp only [Lead, Bool.and_eq_true] at hl; exact hl.2
  · exact hl

/-- every sub-expression of a guarded expression is guarded (for some `leftmost` flag). -/
theorem guarded_subExprs (extras : Bool) (rules : List Rule) : ∀ (e : Expr) (lm : Bool), Guarded rules lm e = true →
    ∀ x ∈ subExprs extras e, ∃ lm', Guarded rules lm' x = true := by
  intro e
  induction e with
  | seq a b iha ihb =>
    intro lm h x hx
    simp only [subExprs, List.mem_cons, List.mem_append] at hx
    rcases hx with rfl | hx | hx
    · exact ⟨lm, h⟩
    · simp only [Guarded, Bool.and_eq_true] at h; exact iha _ h.1 x hx
    · simp only [Guarded, Bool.and_eq_true] at h; exact ihb _ h.2 x hx
  | choice a b iha ihb =>
    intro lm h x hx
    simp only [subExprs, List.mem_cons, List.mem_append] at hx
    rcases hx with rfl | hx | hx
    · exact ⟨lm, h⟩
    · simp only [Guarded, Bool.and_eq_true] at h; exact iha _ h.1.2 x hx
    · simp only [Guarded, Bool.and_eq_true] at h; exact ihb _ h.2 x hx
  | rep a ih | repOnce a ih | repMin a n ih =>
    intro lm h x hx
    simp only [subExprs, List.mem_cons] at hx
    rcases hx with rfl | hx
    · exact ⟨lm, h⟩
    · simp only [Guarded, Bool.and_eq_true] at h; exact ih _ h.2 x hx
  | posPred a ih | negPred a ih | opt a ih | push a ih | repExact a n ih | repMax a n ih | repMinMax a lo hi ih =>
    intro lm h x hx
    simp only [subExprs, List.mem_cons] at hx
    rcases hx with rfl | hx
    · exact ⟨lm, h⟩
    · simp only [Guarded] at h; exact ih _ h x hx
  | nodeTag a t ih =>
    intro lm h x hx
    simp only [subExprs, List.mem_cons] at hx
    rcases hx with rfl | hx
    · exact ⟨lm, h⟩
    · cases extras
      · simp at hx
      · simp only [Guarded] at h; exact ih _ h x (by simpa using hx)
  | _ =>
    intro lm h x hx
    simp only [subExprs, List.mem_singleton] at hx
    subst hx
    exact ⟨lm, h⟩

/-- the left-recursion check never fires on a guarded expression: it stops at the first leading
character, and no grammar rule is referenced before it. -/
theorem guarded_checkExpr (extras : Bool) (rules : List Rule) : ∀ (fuel : Nat) (e : Expr) (trace : List String),
    (∀ n ∈ trace, (lookup rules n).isSome = true) → Guarded rules true e = true →
    checkExpr extras rules fuel e trace = false := by
  intro fuel
  induction fuel with
  | zero => intros; rfl
  | succ fuel ih =>
    intro e trace htr h
    cases e <;> simp only [Guarded, Bool.and_eq_true, Bool.true_and] at h <;> simp only [checkExpr]
    case ident n =>
      have hl : lookup rules n = none := by simpa using h
      have hnot : n ∉ trace := fun hm => by have := htr n hm; simp [hl] at this
      have hh : trace.head? ≠ some n := fun hh => hnot (List.mem_of_mem_head? hh)
      simp [hh, hl]
    case seq a b =>
      cases hL : Lead rules a with
      | true =>
        rw [lead_not_nonFailing rules _ a _ hL, lead_not_nonProgressing rules _ a _ hL]
        simpa using ih a trace htr h.1
      | false =>
        have hb : Guarded rules true b = true := by simpa [hL] using h.2
        simp [ih a trace htr h.1, ih b trace htr hb]
    case choice a b => simp [ih a trace htr h.1.2, ih b trace htr h.2]
    case rep a => exact ih a trace htr h.2
    case repOnce a => exact ih a trace htr h.2
    case repMin a n => exact ih a trace htr h.2
    case opt a => exact ih a trace htr h
    case posPred a => exact ih a trace htr h
    case negPred a => exact ih a trace htr h
    case push a => exact ih a trace htr h
    case repExact a n => exact ih a trace htr h
    case repMax a n => exact ih a trace htr h
    case repMinMax a lo hi => exact ih a trace htr h
    case nodeTag a t =>
      cases extras
      · simp
      · simpa using ih a trace htr h

/-- **Completeness.** A strictly guarded, well-named grammar is accepted. -/
theorem validator_complete (extras : Bool) (rules : List Rule) (hwn : WellNamed rules)
    (hg : StrictlyGuarded rules) (ht : TagsOk extras rules) : validateAst extras rules = [] := by
  have _ := hwn
  obtain ⟨hG, hW⟩ := hg
  have hrep : validateRepetition extras rules = [] := by
    unfold validateRepetition
    rw [List.flatMap_eq_nil_iff]
    intro r hr
    rw [List.filterMap_eq_nil_iff]
    intro x hx
    obtain ⟨lm, hgx⟩ := guarded_subExprs extras rules r.expr true (hG r hr) x hx
    split
    all_goals try rfl
    all_goals
      simp only [Guarded, Bool.and_eq_true] at hgx
      rw [lead_not_nonFailing rules _ _ _ hgx.1, lead_not_nonProgressing rules _ _ _ hgx.1]
      rfl
  have hch : validateChoices extras rules = [] := by
    unfold validateChoices
    rw [List.flatMap_eq_nil_iff]
    intro r hr
    rw [List.filterMap_eq_nil_iff]
    intro x hx
    obtain ⟨lm, hgx⟩ := guarded_subExprs extras rules r.expr true (hG r hr) x hx
    split
    · rename_i lhs rhs
      simp only [Guarded, Bool.and_eq_true] at hgx
      have hl := hgx.1.1
      have key : ∀ node, Lead rules node = true →
          (if isNonFailing rules (fuelFor rules node) node [] = true then some (Err.choiceUnreachable r.name) else none) = none := by
        intro node hn
        rw [lead_not_nonFailing rules _ _ _ hn]
        rfl
      refine key _ ?_
      split
      · simp only [Lead, Bool.and_eq_true] at hl; exact hl.2
      · exact hl
    · rfl
  have hws : validateWsComment rules = [] := by
    unfold validateWsComment
    rw [List.filterMap_eq_nil_iff]
    intro r hr
    split
    · rename_i hn
      have hl := hW r hr hn
      rw [lead_not_nonFailing rules _ _ _ hl, lead_not_nonProgressing rules _ _ _ hl]
      rfl
    · rfl
  have hlr : leftRecursion extras rules = [] := by
    unfold leftRecursion
    rw [List.filterMap_eq_nil_iff]
    intro r hr
    rw [guarded_checkExpr extras rules _ r.expr [r.name] ?_ (hG r hr)]
    · rfl
    · intro n hn
      simp only [List.mem_singleton] at hn
      subst hn
      exact lookup_isSome_of_mem hr
  unfold validateAst
  rw [hrep, hch, hws, hlr, ht]
  rfl

/-- non-vacuity: a recursive, strictly guarded grammar with implicit whitespace, accepted, stack-free. -/
def exRules : List Rule :=
  [⟨"WHITESPACE", .silent, .str [' ']⟩,
   ⟨"list", .normal, .seq (.str ['[']) (.seq (.opt (.seq (.ident "item") (.rep (.seq (.str [',']) (.ident "item"))))) (.str [']']))⟩,
   ⟨"item", .normal, .choice (.repOnce (.ident "ASCII_DIGIT")) (.seq (.str ['(']) (.seq (.ident "list") (.str [')'])))⟩]

example : validateAst false exRules = [] ∧ (∀ r ∈ exRules, StackFree r.expr = true) ∧
    (∀ r ∈ exRules, Guarded exRules true r.expr = true) := by
  decide

end PestModel.C06
