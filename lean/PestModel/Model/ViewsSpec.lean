import PestModel.Model.Views
import PestModel.Model.PStateSpec
/-! Specification side of C04: everything is defined on the tree. -/
namespace PestModel.Views
open PestModel.PS (QTok)
open PestModel.LineCol (Str slice? isBoundary)

/-- The window `[a, b)` of the queue encodes exactly the forest `trees`. -/
def Encodes (q : List QTok) (a b : Nat) (trees : List Tree) : Prop :=
  forestOf q q.length a b = some trees

/-- A `Pairs` view stands for a list of trees. -/
def PairsRep (q : List QTok) (v : Pairs) (trees : List Tree) : Prop :=
  Encodes q v.start v.stop trees ∧ v.count = trees.length

/-- What the `Pair` starting at index `i` shows is the tree `t`. -/
def PairObs (q : List QTok) (i : Nat) (t : Tree) : Prop :=
  pairRule q i = some t.rule ∧ pairSpan q i = some (t.start, t.stop) ∧ pairTag q i = some t.tag ∧
  ∃ e, pairEnd q i = some e ∧ Encodes q (i + 1) e t.children ∧ Encodes q i (e + 1) [t]

/-- A double-ended queue: `true` takes from the front, `false` from the back; each step reports
the element taken (or `none`) and the number of elements left. -/
def dequeRun {α : Type} : List α → List Bool → List (Option α × Nat)
  | _, [] => []
  | [], _ :: ops => (none, 0) :: dequeRun [] ops
  | x :: xs, true :: ops => (some x, xs.length) :: dequeRun xs ops
  | x :: xs, false :: ops => ((x :: xs).getLast?, xs.length) :: dequeRun (x :: xs).dropLast ops

/-- pointwise: the i-th index shows the i-th tree, and the lengths agree. -/
def ObsMatch (q : List QTok) : List (Option Nat × Nat) → List (Option Tree × Nat) → Prop
  | [], [] => True
  | (some i, n) :: xs, (some t, m) :: ys => PairObs q i t ∧ n = m ∧ ObsMatch q xs ys
  | (none, n) :: xs, (none, m) :: ys => n = m ∧ ObsMatch q xs ys
  | _, _ => False

/-! renderers on the tree -/
mutual
  def altOf : Tree → Str
    | .node r a b _ [] => natStr r ++ "(".toList ++ natStr a ++ ", ".toList ++ natStr b ++ ")".toList
    | .node r a b _ (k :: ks) =>
      natStr r ++ "(".toList ++ natStr a ++ ", ".toList ++ natStr b ++ ", [".toList ++
        joinWith ", ".toList (altOfList (k :: ks)) ++ "])".toList
  def altOfList : List Tree → List Str
    | [] => []
    | t :: ts => altOf t :: altOfList ts
end

def strOf (input : Str) (t : Tree) : Option Str := slice? input t.start t.stop

mutual
  def debugOf (input : Str) : Tree → Option Str
    | .node r a b tag ks =>
      match slice? input a b, debugOfList input ks with
      | some str, some strs =>
        some ("Pair { rule: ".toList ++ natStr r ++
          (match tag with | some t => ", node_tag: ".toList ++ debugStr t | none => []) ++
          ", span: Span { str: ".toList ++ debugStr str ++ ", range: ".toList ++ natStr a ++ "..".toList ++
          natStr b ++ " }, inner: [".toList ++ joinWith ", ".toList strs ++ "] }".toList)
      | _, _ => none
  def debugOfList (input : Str) : List Tree → Option (List Str)
    | [] => some []
    | t :: ts =>
      match debugOf input t, debugOfList input ts with
      | some s, some ss => some (s :: ss)
      | _, _ => none
end

mutual
  def jsonOfTree (input : Str) (lvl : Nat) : Tree → Option Str
    | .node r a b _ ks =>
      let head := "{\n".toList ++ indent (lvl + 1) ++ "\"pos\": [\n".toList ++
        indent (lvl + 2) ++ natStr a ++ ",\n".toList ++ indent (lvl + 2) ++ natStr b ++ "\n".toList ++
        indent (lvl + 1) ++ "],\n".toList ++
        indent (lvl + 1) ++ "\"rule\": ".toList ++ jsonStr (natStr r) ++ ",\n".toList ++
        indent (lvl + 1) ++ "\"inner\": ".toList
      match ks with
      | [] => (slice? input a b).map fun str => head ++ jsonStr str ++ "\n".toList ++ indent lvl ++ "}".toList
      | k :: ks' => (jsonOfForest input (lvl + 1) (k :: ks')).map fun inner =>
          head ++ inner ++ "\n".toList ++ indent lvl ++ "}".toList
  def jsonOfForest (input : Str) (lvl : Nat) : List Tree → Option Str
    | ts =>
      let pos : Nat × Nat := match ts.head?, ts.getLast? with
        | some f, some l => (f.start, l.stop)
        | _, _ => (0, 0)
      match jsonOfList input (lvl + 2) ts with
      | some strs =>
        let body := if strs.isEmpty then "[]".toList else
          "[\n".toList ++ joinWith ",\n".toList (strs.map fun s => indent (lvl + 2) ++ s) ++ "\n".toList ++
            indent (lvl + 1) ++ "]".toList
        some ("{\n".toList ++ indent (lvl + 1) ++ "\"pos\": [\n".toList ++
          indent (lvl + 2) ++ natStr pos.1 ++ ",\n".toList ++ indent (lvl + 2) ++ natStr pos.2 ++ "\n".toList ++
          indent (lvl + 1) ++ "],\n".toList ++
          indent (lvl + 1) ++ "\"pairs\": ".toList ++ body ++ "\n".toList ++ indent lvl ++ "}".toList)
      | none => none
  def jsonOfList (input : Str) (lvl : Nat) : List Tree → Option (List Str)
    | [] => some []
    | t :: ts =>
      match jsonOfTree input lvl t, jsonOfList input lvl ts with
      | some s, some ss => some (s :: ss)
      | _, _ => none
end

mutual
  /-- Spans nest: every node lies in `[lo, hi]` on boundaries, siblings are ordered and do not
  overlap, children lie inside their parent. -/
  def nestedTree (input : Str) (lo hi : Nat) : Tree → Bool
    | .node _ a b _ ks => decide (lo ≤ a) && decide (a ≤ b) && decide (b ≤ hi) && isBoundary input a && isBoundary input b &&
        nestedForest input a b ks
  def nestedForest (input : Str) (lo hi : Nat) : List Tree → Bool
    | [] => true
    | t :: ts => nestedTree input lo hi t && nestedForest input t.stop hi ts
end

end PestModel.Views
